//! Independent decoder of the compressed CPC image (FM85 format of datasketches-java / -cpp).
//!
//! Preamble: byte0 preInts, byte1 serVer 1, byte2 family 16, byte3 lgK, byte4 first interesting
//! column, byte5 flags (bit1 compressed, bit2 has HIP, bit3 has surprising-value table, bit4 has
//! window), bytes6-7 seed hash. Then, if not empty: numCoupons u32; [table && window: numSv u32,
//! and if HIP: kxp f64, hipAccum f64]; [table: tableWords u32]; [window: windowWords u32];
//! [HIP && !(table && window): kxp, hipAccum]; window words; table words.
//!
//! Bit streams are little-endian u32 words consumed LSB-first. The window is Huffman-coded with one
//! of 22 byte tables selected by the pseudo-phase; pairs are coded as (column delta: length-limited
//! unary code of 65 symbols) (row delta: Golomb = unary high part + B low bits), B chosen from
//! (k + numPairs, numPairs). Sliding flavor: columns are rotated by (offset + 8) and permuted by
//! one of 16 permutations selected by the phase; columns below the window offset have inverted
//! meaning. The code tables are spec data snapshotted in /verif/spec/cpc_tables.json; decoding
//! structures are derived here from the ENCODING tables.

use crate::model::cpc::{correct_offset, flavor};
use std::collections::HashMap;
use std::sync::OnceLock;

pub struct Tables {
    /// (len, code) -> x delta
    pub unary: HashMap<(u8, u16), u8>,
    /// per pseudo-phase: (len, code) -> byte
    pub bytes: Vec<HashMap<(u8, u16), u8>>,
    /// per phase: decoding permutation (inverse of the encoding permutation)
    pub perm_dec: Vec<[u8; 56]>,
}

pub fn tables() -> &'static Tables {
    static T: OnceLock<Tables> = OnceLock::new();
    T.get_or_init(|| {
        let v: serde_json::Value = serde_json::from_str(include_str!("../../../spec/cpc_tables.json")).expect("cpc_tables.json");
        let arr = |x: &serde_json::Value| -> Vec<u64> { x.as_array().unwrap().iter().map(|y| y.as_u64().unwrap()).collect() };
        let mk = |codes: &[u64]| -> HashMap<(u8, u16), u8> {
            codes.iter().enumerate().map(|(sym, &c)| (((c >> 12) as u8, (c & 0xfff) as u16), sym as u8)).collect()
        };
        let unary = mk(&arr(&v["length_limited_unary_encoding_table65"]));
        let bytes = v["encoding_tables_for_high_entropy_byte"].as_array().unwrap().iter().map(|t| mk(&arr(t))).collect();
        let perm_dec = v["column_permutations_for_encoding"]
            .as_array()
            .unwrap()
            .iter()
            .map(|p| {
                let enc = arr(p);
                let mut dec = [0u8; 56];
                for (i, &e) in enc.iter().enumerate() {
                    dec[e as usize] = i as u8;
                }
                dec
            })
            .collect();
        Tables { unary, bytes, perm_dec }
    })
}

/// pseudo-phase in 64-bit arithmetic (thresholds of the published implementation)
pub fn pseudo_phase(lg_k: u8, c: u64) -> usize {
    let k = 1u64 << lg_k;
    if 1000 * c < 2375 * k {
        if 4 * c < 3 * k {
            16
        } else if 10 * c < 11 * k {
            17
        } else if 100 * c < 132 * k {
            18
        } else if 3 * c < 5 * k {
            19
        } else if 1000 * c < 1965 * k {
            20
        } else if 1000 * c < 2275 * k {
            21
        } else {
            6
        }
    } else {
        ((c >> (lg_k - 4)) & 15) as usize
    }
}

pub fn golomb_base_bits(k_plus_pairs: u64, pairs: u64) -> u8 {
    let q = (k_plus_pairs - pairs) / pairs;
    if q == 0 {
        0
    } else {
        63 - q.leading_zeros() as u8
    }
}

struct BitReader<'a> {
    words: &'a [u32],
    pos: u64,
}
impl BitReader<'_> {
    fn bit(&mut self) -> Result<u8, String> {
        let w = (self.pos / 32) as usize;
        let word = *self.words.get(w).ok_or_else(|| format!("bit stream exhausted at bit {}", self.pos))?;
        let b = (word >> (self.pos % 32)) & 1;
        self.pos += 1;
        Ok(b as u8)
    }
    fn bits(&mut self, n: u8) -> Result<u64, String> {
        let mut v = 0u64;
        for i in 0..n {
            v |= (self.bit()? as u64) << i;
        }
        Ok(v)
    }
    fn symbol(&mut self, table: &HashMap<(u8, u16), u8>) -> Result<u8, String> {
        let mut code = 0u16;
        for len in 1..=12u8 {
            code |= (self.bit()? as u16) << (len - 1);
            if let Some(&s) = table.get(&(len, code)) {
                return Ok(s);
            }
        }
        Err(format!("no codeword matches at bit {}", self.pos))
    }
    fn unary(&mut self) -> Result<u64, String> {
        let mut n = 0u64;
        while self.bit()? == 0 {
            n += 1;
            if n > 1 << 32 {
                return Err("runaway unary code".into());
            }
        }
        Ok(n)
    }
}

#[derive(Debug, Clone)]
pub struct CpcImage {
    pub pre_ints: u8,
    pub lg_k: u8,
    pub fi_col: u8,
    pub flags: u8,
    pub seed_hash: u16,
    pub num_coupons: u32,
    pub num_sv: u32,
    pub has_hip: bool,
    pub kxp: f64,
    pub hip: f64,
    pub table_words: u32,
    pub window_words: u32,
    /// the k x 64 bit matrix the image encodes
    pub matrix: Vec<u64>,
    pub window_offset: u8,
    pub flavor: u8,
}

fn rd_u32(b: &[u8], o: &mut usize) -> Result<u32, String> {
    let s = b.get(*o..*o + 4).ok_or_else(|| format!("truncated at {o}"))?;
    *o += 4;
    Ok(u32::from_le_bytes(s.try_into().unwrap()))
}
fn rd_f64(b: &[u8], o: &mut usize) -> Result<f64, String> {
    let s = b.get(*o..*o + 8).ok_or_else(|| format!("truncated at {o}"))?;
    *o += 8;
    Ok(f64::from_le_bytes(s.try_into().unwrap()))
}

pub fn decode(b: &[u8]) -> Result<CpcImage, String> {
    if b.len() < 8 {
        return Err(format!("image of {} bytes", b.len()));
    }
    if b[1] != 1 || b[2] != 16 {
        return Err(format!("serVer {} family {}", b[1], b[2]));
    }
    let lg_k = b[3];
    if !(4..=26).contains(&lg_k) {
        return Err(format!("lgK {lg_k}"));
    }
    let flags = b[5];
    if flags & 2 == 0 {
        return Err("uncompressed images are not written by any current implementation".into());
    }
    let has_hip = flags & 4 != 0;
    let has_table = flags & 8 != 0;
    let has_window = flags & 16 != 0;
    let k = 1usize << lg_k;
    let mut im = CpcImage {
        pre_ints: b[0],
        lg_k,
        fi_col: b[4],
        flags,
        seed_hash: u16::from_le_bytes([b[6], b[7]]),
        num_coupons: 0,
        num_sv: 0,
        has_hip,
        kxp: k as f64,
        hip: 0.0,
        table_words: 0,
        window_words: 0,
        matrix: vec![0; k],
        window_offset: 0,
        flavor: 0,
    };
    let mut o = 8usize;
    if !(has_table || has_window) {
        // empty sketch: preamble only
        let want = 2;
        if im.pre_ints != want || b.len() != 8 {
            return Err(format!("empty image: preInts {} length {}", im.pre_ints, b.len()));
        }
        return Ok(im);
    }
    im.num_coupons = rd_u32(b, &mut o)?;
    if has_table && has_window {
        im.num_sv = rd_u32(b, &mut o)?;
        if has_hip {
            im.kxp = rd_f64(b, &mut o)?;
            im.hip = rd_f64(b, &mut o)?;
        }
    }
    if has_table {
        im.table_words = rd_u32(b, &mut o)?;
    }
    if has_window {
        im.window_words = rd_u32(b, &mut o)?;
    }
    if has_hip && !(has_table && has_window) {
        im.kxp = rd_f64(b, &mut o)?;
        im.hip = rd_f64(b, &mut o)?;
    }
    if !has_window {
        im.num_sv = im.num_coupons;
    }
    // preamble ints as the format tables prescribe
    let mut want = 3u8;
    if has_hip {
        want += 4;
    }
    if has_table {
        want += 1;
        if has_window {
            want += 1;
        }
    }
    if has_window {
        want += 1;
    }
    if im.pre_ints != want {
        return Err(format!("preInts {} but the flag combination implies {want}", im.pre_ints));
    }
    if o != im.pre_ints as usize * 4 {
        return Err(format!("preamble ends at byte {o} but preInts = {}", im.pre_ints));
    }
    let mut words = |n: u32| -> Result<Vec<u32>, String> {
        let mut v = Vec::with_capacity(n as usize);
        for _ in 0..n {
            v.push(rd_u32(b, &mut o)?);
        }
        Ok(v)
    };
    let window_data = words(im.window_words)?;
    let table_data = words(im.table_words)?;
    if o != b.len() {
        return Err(format!("{} trailing bytes", b.len() - o));
    }
    let c = im.num_coupons as u64;
    let fl = flavor(lg_k, c);
    let off = correct_offset(lg_k, c);
    im.flavor = fl;
    im.window_offset = off;
    // which sections must be present for the flavor
    let (need_window, need_table) = match fl {
        0 => (false, false),
        1 | 2 => (false, true),
        _ => (true, im.num_sv > 0),
    };
    if has_window != need_window || (need_table && !has_table) || (!need_table && has_table && fl >= 3 && im.num_sv == 0) {
        return Err(format!("flavor {fl} with window={has_window} table={has_table} numSv={}", im.num_sv));
    }
    let t = tables();
    // window
    let mut window = vec![0u8; if has_window { k } else { 0 }];
    if has_window {
        let table = &t.bytes[pseudo_phase(lg_k, c)];
        let mut r = BitReader { words: &window_data, pos: 0 };
        for w in window.iter_mut() {
            *w = r.symbol(table)?;
        }
        // the writer pads with 11 zero bits and flushes whole words
        let used_words = (r.pos + 11).div_ceil(32);
        if used_words != im.window_words as u64 {
            return Err(format!("window stream uses {used_words} words, image declares {}", im.window_words));
        }
    }
    // pairs
    let mut pairs: Vec<(u32, u8)> = vec![];
    if has_table {
        let np = im.num_sv as u64;
        if np == 0 {
            return Err("table present with zero pairs".into());
        }
        let base = golomb_base_bits(k as u64 + np, np);
        let mut r = BitReader { words: &table_data, pos: 0 };
        let (mut prow, mut pcol) = (0u32, 0u32);
        for _ in 0..np {
            let xd = r.symbol(&t.unary)? as u32;
            let hi = r.unary()?;
            let lo = r.bits(base)?;
            let yd = ((hi << base) | lo) as u32;
            if yd > 0 {
                pcol = 0;
            }
            let row = prow + yd;
            let col = pcol + xd;
            if row as usize >= k || col > 63 {
                return Err(format!("pair ({row}, {col}) out of range"));
            }
            pairs.push((row, col as u8));
            prow = row;
            pcol = col + 1;
        }
        let pad = 10u64.saturating_sub(base as u64);
        let used_words = (r.pos + pad).div_ceil(32);
        if used_words != im.table_words as u64 {
            return Err(format!("pair stream uses {used_words} words, image declares {}", im.table_words));
        }
    }
    // reconstruct the matrix
    match fl {
        1 | 2 => {
            for &(row, col) in &pairs {
                im.matrix[row as usize] |= 1u64 << col;
            }
        }
        3 => {
            for (i, &w) in window.iter().enumerate() {
                im.matrix[i] |= w as u64;
            }
            for &(row, col) in &pairs {
                if col >= 56 {
                    return Err(format!("pinned pair column {col} + 8 out of range"));
                }
                im.matrix[row as usize] |= 1u64 << (col + 8);
            }
        }
        4 => {
            let default_row = (1u64 << off) - 1;
            for (i, &w) in window.iter().enumerate() {
                im.matrix[i] = default_row | ((w as u64) << off);
            }
            let perm = &t.perm_dec[pseudo_phase(lg_k, c)];
            for &(row, col) in &pairs {
                if col >= 56 {
                    return Err(format!("sliding pair column {col} out of range"));
                }
                let c0 = perm[col as usize];
                let real = (c0 as u32 + off as u32 + 8) & 63;
                // columns below the offset are stored inverted, columns above the window as is
                im.matrix[row as usize] ^= 1u64 << real;
            }
        }
        _ => {}
    }
    let pop: u64 = im.matrix.iter().map(|r| r.count_ones() as u64).sum();
    if pop != c {
        return Err(format!("decoded matrix has {pop} bits but numCoupons = {c}"));
    }
    Ok(im)
}
