//! Independent codec for the cross-language HLL image layout (datasketches-java PreambleUtil /
//! datasketches-cpp HllUtil), written from the published layout:
//!
//! byte 0 preInts (2 list, 3 set, 10 hll) | 1 serVer=1 | 2 family=7 | 3 lgK | 4 lgArr |
//! 5 flags (4 empty, 8 compact, 16 out-of-order, 32 rebuild-kxq) | 6 list count / curMin |
//! 7 mode byte (bits0-1 curMode, bits2-3 tgtHllType)
//! LIST: coupons from byte 8.  SET: count int at 8, coupons from 12.
//! HLL: hip f64 @8, kxq0 @16, kxq1 @24, numAtCurMin i32 @32, auxCount i32 @36, register bytes @40
//! (HLL4 k/2 nibbles low-first, HLL6 3k/4+1 bytes 6-bit little-endian packing, HLL8 k bytes),
//! then the HLL4 aux pairs: compact flag => auxCount pairs, otherwise a table of 1<<lgArr ints.
//! The register array is present whether or not the compact flag is set.

pub const EMPTY: u8 = 4;
pub const COMPACT: u8 = 8;
pub const OOO: u8 = 16;

#[derive(Clone, Debug, PartialEq)]
pub struct HllImage {
    pub pre_ints: u8,
    pub lg_k: u8,
    pub lg_arr: u8,
    pub flags: u8,
    pub state: u8,
    /// 0 list, 1 set, 2 hll
    pub mode: u8,
    /// 0 Hll4, 1 Hll6, 2 Hll8
    pub tgt: u8,
    /// list / set: the non-empty coupons in image order
    pub coupons: Vec<u32>,
    /// set mode: declared count
    pub declared_count: u32,
    pub hip: f64,
    pub kxq0: f64,
    pub kxq1: f64,
    pub num_at_cur_min: u32,
    pub aux_count: u32,
    /// decoded true register values (cur_min and aux applied)
    pub registers: Vec<u8>,
    pub aux: Vec<(u32, u8)>,
    /// bytes consumed
    pub consumed: usize,
}

fn rd_u32(b: &[u8], o: usize) -> Result<u32, String> {
    b.get(o..o + 4).map(|s| u32::from_le_bytes(s.try_into().unwrap())).ok_or_else(|| format!("truncated at {o}"))
}
fn rd_f64(b: &[u8], o: usize) -> Result<f64, String> {
    b.get(o..o + 8).map(|s| f64::from_le_bytes(s.try_into().unwrap())).ok_or_else(|| format!("truncated at {o}"))
}

pub fn hll_array_bytes(tgt: u8, lg_k: u8) -> usize {
    let k = 1usize << lg_k;
    match tgt {
        0 => k / 2,
        1 => k * 3 / 4 + 1,
        _ => k,
    }
}

/// LG_AUX_ARR_INTS of the Java/C++ implementations.
pub const LG_AUX_ARR_INTS: [u8; 27] =
    [0, 2, 2, 2, 2, 2, 2, 3, 3, 3, 4, 4, 5, 5, 6, 7, 8, 9, 10, 11, 12, 13, 14, 15, 16, 17, 18];

/// Decode as a Java / C++ reader would.
pub fn decode(b: &[u8]) -> Result<HllImage, String> {
    if b.len() < 8 {
        return Err("shorter than 8 bytes".into());
    }
    let mut im = HllImage {
        pre_ints: b[0],
        lg_k: b[3],
        lg_arr: b[4],
        flags: b[5],
        state: b[6],
        mode: b[7] & 3,
        tgt: (b[7] >> 2) & 3,
        coupons: vec![],
        declared_count: 0,
        hip: 0.0,
        kxq0: 0.0,
        kxq1: 0.0,
        num_at_cur_min: 0,
        aux_count: 0,
        registers: vec![],
        aux: vec![],
        consumed: 8,
    };
    if b[1] != 1 {
        return Err(format!("serVer {}", b[1]));
    }
    if b[2] != 7 {
        return Err(format!("family {}", b[2]));
    }
    if !(4..=21).contains(&im.lg_k) {
        return Err(format!("lgK {}", im.lg_k));
    }
    if im.tgt > 2 {
        return Err("tgt type 3".into());
    }
    let compact = im.flags & COMPACT != 0;
    match im.mode {
        0 => {
            if im.pre_ints != 2 {
                return Err(format!("list preInts {}", im.pre_ints));
            }
            let count = im.state as usize;
            let n = if compact { count } else { 1usize << im.lg_arr };
            for i in 0..n {
                let c = rd_u32(b, 8 + 4 * i)?;
                if c != 0 {
                    im.coupons.push(c);
                }
            }
            im.declared_count = count as u32;
            im.consumed = 8 + 4 * n;
        }
        1 => {
            if im.pre_ints != 3 {
                return Err(format!("set preInts {}", im.pre_ints));
            }
            im.declared_count = rd_u32(b, 8)?;
            let n = if compact { im.declared_count as usize } else { 1usize << im.lg_arr };
            for i in 0..n {
                let c = rd_u32(b, 12 + 4 * i)?;
                if c != 0 {
                    im.coupons.push(c);
                }
            }
            im.consumed = 12 + 4 * n;
        }
        2 => {
            if im.pre_ints != 10 {
                return Err(format!("hll preInts {}", im.pre_ints));
            }
            im.hip = rd_f64(b, 8)?;
            im.kxq0 = rd_f64(b, 16)?;
            im.kxq1 = rd_f64(b, 24)?;
            im.num_at_cur_min = rd_u32(b, 32)?;
            im.aux_count = rd_u32(b, 36)?;
            let k = 1usize << im.lg_k;
            let nb = hll_array_bytes(im.tgt, im.lg_k);
            let arr = b.get(40..40 + nb).ok_or("register array truncated")?;
            let mut off = 40 + nb;
            match im.tgt {
                2 => im.registers = arr.to_vec(),
                1 => {
                    im.registers = (0..k)
                        .map(|s| {
                            let bit = s * 6;
                            let w = arr[bit >> 3] as u16 | ((*arr.get((bit >> 3) + 1).unwrap_or(&0) as u16) << 8);
                            ((w >> (bit & 7)) & 0x3f) as u8
                        })
                        .collect();
                }
                _ => {
                    let cur_min = im.state;
                    let mut raw: Vec<u8> =
                        (0..k).map(|s| if s & 1 == 0 { arr[s >> 1] & 15 } else { arr[s >> 1] >> 4 }).collect();
                    // aux pairs
                    let mask = (k - 1) as u32;
                    if im.aux_count > 0 {
                        if compact {
                            for i in 0..im.aux_count as usize {
                                let p = rd_u32(b, off + 4 * i)?;
                                im.aux.push((p & 0x3ff_ffff & mask, (p >> 26) as u8));
                            }
                            off += 4 * im.aux_count as usize;
                        } else {
                            let n = 1usize << im.lg_arr;
                            for i in 0..n {
                                let p = rd_u32(b, off + 4 * i)?;
                                if p != 0 {
                                    im.aux.push((p & 0x3ff_ffff & mask, (p >> 26) as u8));
                                }
                            }
                            off += 4 * n;
                        }
                    }
                    for (s, r) in raw.iter_mut().enumerate() {
                        if *r == 15 {
                            match im.aux.iter().find(|(slot, _)| *slot as usize == s) {
                                Some((_, v)) => *r = *v,
                                None => return Err(format!("slot {s} holds the aux token but no aux entry is readable")),
                            }
                        } else {
                            *r += cur_min;
                        }
                    }
                    im.registers = raw;
                }
            }
            im.consumed = off;
        }
        _ => return Err("mode 3".into()),
    }
    Ok(im)
}

#[derive(Clone, Debug)]
pub struct EncOpts {
    pub compact: bool,
    pub ooo: bool,
    /// write the empty flag when there is nothing in the sketch
    pub empty_flag: bool,
}

fn header(pre: u8, lg_k: u8, lg_arr: u8, flags: u8, state: u8, mode: u8, tgt: u8) -> Vec<u8> {
    vec![pre, 1, 7, lg_k, lg_arr, flags, state, (mode & 3) | ((tgt & 3) << 2)]
}

/// LIST image. `coupons.len() <= 7`.
pub fn encode_list(lg_k: u8, tgt: u8, coupons: &[u32], o: &EncOpts) -> Vec<u8> {
    let mut flags = 0u8;
    if o.compact {
        flags |= COMPACT;
    }
    if coupons.is_empty() && o.empty_flag {
        flags |= EMPTY;
    }
    let mut b = header(2, lg_k, 3, flags, coupons.len() as u8, 0, tgt);
    if o.compact {
        for c in coupons {
            b.extend_from_slice(&c.to_le_bytes());
        }
    } else {
        for i in 0..8 {
            b.extend_from_slice(&coupons.get(i).copied().unwrap_or(0).to_le_bytes());
        }
    }
    b
}

/// The published open-addressing insert used by the updatable SET table.
pub fn set_table(lg_arr: u8, coupons: &[u32]) -> Vec<u32> {
    let n = 1usize << lg_arr;
    let mask = (n - 1) as u32;
    let mut t = vec![0u32; n];
    for &c in coupons {
        let mut probe = c & mask;
        loop {
            if t[probe as usize] == 0 || t[probe as usize] == c {
                t[probe as usize] = c;
                break;
            }
            let stride = ((c & 0x3ff_ffff) >> lg_arr) | 1;
            probe = (probe + stride) & mask;
        }
    }
    t
}

/// smallest legal set size for a count (what the Java/C++ growth rule yields)
pub fn set_lg_arr(lg_k: u8, count: usize) -> u8 {
    let mut lg = 5u8;
    while 4 * count > 3 * (1usize << lg) && lg < lg_k - 3 {
        lg += 1;
    }
    lg
}

/// SET image.
pub fn encode_set(lg_k: u8, tgt: u8, coupons: &[u32], lg_arr: u8, o: &EncOpts) -> Vec<u8> {
    let mut flags = 0u8;
    if o.compact {
        flags |= COMPACT;
    }
    let mut b = header(3, lg_k, lg_arr, flags, 0, 1, tgt);
    b.extend_from_slice(&(coupons.len() as u32).to_le_bytes());
    if o.compact {
        for c in coupons {
            b.extend_from_slice(&c.to_le_bytes());
        }
    } else {
        for c in set_table(lg_arr, coupons) {
            b.extend_from_slice(&c.to_le_bytes());
        }
    }
    b
}

pub fn kxq_of(regs: &[u8]) -> (f64, f64) {
    let mut hist = [0u64; 256];
    for &r in regs {
        hist[r as usize] += 1;
    }
    let (mut a, mut b) = (0.0, 0.0);
    for v in (0..64usize).rev() {
        let t = hist[v] as f64 * (-(v as f64)).exp2();
        if v < 32 {
            a += t;
        } else {
            b += t;
        }
    }
    (a, b)
}

/// aux table layout of the Java/C++ AuxHashMap (probe = slot & mask, stride = (slot >> lg) | 1)
pub fn aux_table(lg_arr: u8, pairs: &[(u32, u8)]) -> Vec<u32> {
    let n = 1usize << lg_arr;
    let mask = (n - 1) as u32;
    let mut t = vec![0u32; n];
    for &(slot, v) in pairs {
        let mut probe = slot & mask;
        loop {
            if t[probe as usize] == 0 {
                t[probe as usize] = ((v as u32) << 26) | slot;
                break;
            }
            probe = (probe + ((slot >> lg_arr) | 1)) & mask;
        }
    }
    t
}

pub fn aux_lg_arr(lg_k: u8, count: usize) -> u8 {
    let mut lg = LG_AUX_ARR_INTS[lg_k as usize];
    while 4 * count > 3 * (1usize << lg) {
        lg += 1;
    }
    lg
}

/// HLL-mode image from true register values. `hip` is written as given.
pub fn encode_array(lg_k: u8, tgt: u8, regs: &[u8], hip: f64, o: &EncOpts) -> Vec<u8> {
    let k = 1usize << lg_k;
    assert_eq!(regs.len(), k);
    let mut flags = 0u8;
    if o.compact {
        flags |= COMPACT;
    }
    if o.ooo {
        flags |= OOO;
    }
    let (kxq0, kxq1) = kxq_of(regs);
    let (cur_min, num_at, aux): (u8, u32, Vec<(u32, u8)>) = if tgt == 0 {
        let m = *regs.iter().min().unwrap();
        let n = regs.iter().filter(|&&r| r == m).count() as u32;
        let aux = regs.iter().enumerate().filter(|(_, &r)| r - m >= 15).map(|(i, &r)| (i as u32, r)).collect();
        (m, n, aux)
    } else {
        (0, regs.iter().filter(|&&r| r == 0).count() as u32, vec![])
    };
    let lg_aux = if tgt == 0 && !aux.is_empty() { aux_lg_arr(lg_k, aux.len()) } else if tgt == 0 { LG_AUX_ARR_INTS[lg_k as usize] } else { 0 };
    let lg_arr_byte = if tgt == 0 && !o.compact { lg_aux } else { 0 };
    let mut b = header(10, lg_k, lg_arr_byte, flags, cur_min, 2, tgt);
    b.extend_from_slice(&hip.to_le_bytes());
    b.extend_from_slice(&kxq0.to_le_bytes());
    b.extend_from_slice(&kxq1.to_le_bytes());
    b.extend_from_slice(&num_at.to_le_bytes());
    b.extend_from_slice(&(aux.len() as u32).to_le_bytes());
    match tgt {
        2 => b.extend_from_slice(regs),
        1 => {
            let mut arr = vec![0u8; k * 3 / 4 + 1];
            for (s, &r) in regs.iter().enumerate() {
                let bit = s * 6;
                let w = (r as u16 & 0x3f) << (bit & 7);
                arr[bit >> 3] |= (w & 0xff) as u8;
                arr[(bit >> 3) + 1] |= (w >> 8) as u8;
            }
            b.extend_from_slice(&arr);
        }
        _ => {
            let mut arr = vec![0u8; k / 2];
            for (s, &r) in regs.iter().enumerate() {
                let raw = (r - cur_min).min(15);
                if s & 1 == 0 {
                    arr[s >> 1] |= raw;
                } else {
                    arr[s >> 1] |= raw << 4;
                }
            }
            b.extend_from_slice(&arr);
            if !aux.is_empty() {
                if o.compact {
                    for &(slot, v) in &aux {
                        b.extend_from_slice(&(((v as u32) << 26) | slot).to_le_bytes());
                    }
                } else {
                    for p in aux_table(lg_aux, &aux) {
                        b.extend_from_slice(&p.to_le_bytes());
                    }
                }
            }
        }
    }
    b
}
