//! Independent codecs for the cross-language image formats, written from the published layouts.
pub mod hll;
pub mod tdigest;
