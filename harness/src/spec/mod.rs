//! Independent codecs for the cross-language image formats, written from the published layouts.
pub mod cpc;
pub mod fi;
pub mod hll;
pub mod tdigest;
pub mod theta;
