//! Independent codec for t-digest images: the DataSketches layout (double and float flavours)
//! and the two encodings of the reference implementation (MergingDigest.asBytes / asSmallBytes).
//!
//! DataSketches: byte0 preamble longs (1 = empty or single value, 2 otherwise), byte1 serVer 1,
//! byte2 family 20, bytes3-4 k (u16 LE), byte5 flags (1 empty, 2 single value, 4 reverse merge),
//! bytes6-7 unused; single value: the value; otherwise u32 num_centroids, u32 num_buffered,
//! min, max, (mean, weight) pairs, buffered values. Double flavour: f64 / u64, float: f32 / u32.

#[derive(Clone, Debug, PartialEq)]
pub struct TdImage {
    pub k: u16,
    pub empty: bool,
    pub single: bool,
    pub reverse_merge: bool,
    pub min: f64,
    pub max: f64,
    pub centroids: Vec<(f64, u64)>,
    pub buffered: Vec<f64>,
}

pub fn decode(b: &[u8], is_f32: bool) -> Result<TdImage, String> {
    if b.len() < 8 {
        return Err(format!("image of {} bytes", b.len()));
    }
    if b[1] != 1 || b[2] != 20 {
        return Err(format!("serVer {} family {}", b[1], b[2]));
    }
    let k = u16::from_le_bytes([b[3], b[4]]);
    let flags = b[5];
    let mut im = TdImage {
        k,
        empty: flags & 1 != 0,
        single: flags & 2 != 0,
        reverse_merge: flags & 4 != 0,
        min: f64::INFINITY,
        max: f64::NEG_INFINITY,
        centroids: vec![],
        buffered: vec![],
    };
    let vs = if is_f32 { 4 } else { 8 };
    let rdv = |o: usize| -> Result<f64, String> {
        let s = b.get(o..o + vs).ok_or_else(|| format!("truncated at {o}"))?;
        Ok(if is_f32 { f32::from_le_bytes(s.try_into().unwrap()) as f64 } else { f64::from_le_bytes(s.try_into().unwrap()) })
    };
    let rdw = |o: usize| -> Result<u64, String> {
        let s = b.get(o..o + vs).ok_or_else(|| format!("truncated at {o}"))?;
        Ok(if is_f32 { u32::from_le_bytes(s.try_into().unwrap()) as u64 } else { u64::from_le_bytes(s.try_into().unwrap()) })
    };
    if im.empty {
        if b[0] != 1 || b.len() != 8 {
            return Err(format!("empty image: preLongs {} len {}", b[0], b.len()));
        }
        return Ok(im);
    }
    if im.single {
        if b[0] != 1 || b.len() != 8 + vs {
            return Err(format!("single-value image: preLongs {} len {}", b[0], b.len()));
        }
        let v = rdv(8)?;
        im.min = v;
        im.max = v;
        im.centroids.push((v, 1));
        return Ok(im);
    }
    if b[0] != 2 {
        return Err(format!("multi-value image with preLongs {}", b[0]));
    }
    let nc = u32::from_le_bytes(b.get(8..12).ok_or("truncated")?.try_into().unwrap()) as usize;
    let nb = u32::from_le_bytes(b.get(12..16).ok_or("truncated")?.try_into().unwrap()) as usize;
    im.min = rdv(16)?;
    im.max = rdv(16 + vs)?;
    let mut o = 16 + 2 * vs;
    for _ in 0..nc {
        im.centroids.push((rdv(o)?, rdw(o + vs)?));
        o += 2 * vs;
    }
    for _ in 0..nb {
        im.buffered.push(rdv(o)?);
        o += vs;
    }
    if o != b.len() {
        return Err(format!("{} trailing bytes", b.len() - o));
    }
    Ok(im)
}

#[derive(Clone, Copy, Debug, PartialEq)]
pub enum Enc {
    Double,
    Float,
    CompatDouble,
    CompatFloat,
}

/// Encode an abstract digest. `single` / `empty` forms are chosen automatically for the
/// DataSketches encodings.
pub fn encode(im: &TdImage, enc: Enc) -> Vec<u8> {
    let total: u64 = im.centroids.iter().map(|c| c.1).sum::<u64>() + im.buffered.len() as u64;
    match enc {
        Enc::Double | Enc::Float => {
            let f32_ = enc == Enc::Float;
            let mut b = vec![];
            let single = total == 1;
            let empty = total == 0;
            b.push(if empty || single { 1 } else { 2 });
            b.push(1);
            b.push(20);
            b.extend_from_slice(&im.k.to_le_bytes());
            b.push((empty as u8) | ((single as u8) << 1) | ((im.reverse_merge as u8) << 2));
            b.extend_from_slice(&[0, 0]);
            let pv = |b: &mut Vec<u8>, v: f64| {
                if f32_ {
                    b.extend_from_slice(&(v as f32).to_le_bytes())
                } else {
                    b.extend_from_slice(&v.to_le_bytes())
                }
            };
            if empty {
                return b;
            }
            if single {
                let v = im.centroids.first().map(|c| c.0).unwrap_or_else(|| im.buffered[0]);
                pv(&mut b, v);
                return b;
            }
            b.extend_from_slice(&(im.centroids.len() as u32).to_le_bytes());
            b.extend_from_slice(&(im.buffered.len() as u32).to_le_bytes());
            pv(&mut b, im.min);
            pv(&mut b, im.max);
            for &(m, w) in &im.centroids {
                pv(&mut b, m);
                if f32_ {
                    b.extend_from_slice(&(w as u32).to_le_bytes());
                } else {
                    b.extend_from_slice(&w.to_le_bytes());
                }
            }
            for &v in &im.buffered {
                pv(&mut b, v);
            }
            b
        }
        Enc::CompatDouble => {
            let mut b = vec![];
            b.extend_from_slice(&1u32.to_be_bytes());
            b.extend_from_slice(&im.min.to_be_bytes());
            b.extend_from_slice(&im.max.to_be_bytes());
            b.extend_from_slice(&(im.k as f64).to_be_bytes());
            b.extend_from_slice(&(im.centroids.len() as u32).to_be_bytes());
            for &(m, w) in &im.centroids {
                b.extend_from_slice(&(w as f64).to_be_bytes());
                b.extend_from_slice(&m.to_be_bytes());
            }
            b
        }
        Enc::CompatFloat => {
            let mut b = vec![];
            b.extend_from_slice(&2u32.to_be_bytes());
            b.extend_from_slice(&im.min.to_be_bytes());
            b.extend_from_slice(&im.max.to_be_bytes());
            b.extend_from_slice(&(im.k as f32).to_be_bytes());
            // capacities of the centroid array and the buffer (two shorts), unused by readers
            b.extend_from_slice(&((2 * im.k as u32 + 30).min(65535) as u16).to_be_bytes());
            b.extend_from_slice(&((5 * im.k as u32).min(65535) as u16).to_be_bytes());
            b.extend_from_slice(&(im.centroids.len() as u16).to_be_bytes());
            for &(m, w) in &im.centroids {
                b.extend_from_slice(&(w as f32).to_be_bytes());
                b.extend_from_slice(&(m as f32).to_be_bytes());
            }
            b
        }
    }
}
