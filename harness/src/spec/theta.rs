//! Independent codec for compact theta images, serial versions 1-4 (datasketches-java
//! PreambleUtil / ForwardCompatibility, datasketches-cpp compact_theta_sketch).
//!
//! v3: byte0 preLongs, byte1 serVer 3, byte2 family 3, bytes3-4 lgNom/lgArr (0 for compact),
//! byte5 flags (1 big-endian, 2 read-only, 4 empty, 8 compact, 16 ordered, 32 single item),
//! bytes6-7 seed hash (LE). preLongs 1: empty, or one entry at byte 8; preLongs 2: count u32 @8,
//! p f32 @12, entries @16 (theta = max); preLongs 3: + theta u64 @16, entries @24.
//! v4: byte0 preLongs (1, or 2 with theta), byte1 4, byte2 3, byte3 entryBits, byte4
//! numEntriesBytes, byte5 flags, bytes6-7 seed hash, [theta], count in numEntriesBytes LE bytes,
//! then the deltas of the sorted entries as one MSB-first bit stream of entryBits-wide fields.
//! v2: byte1 2, seed hash @6; preLongs 1 empty; 2: count @8, entries @16; 3: + theta @16, entries @24.
//! v1: byte1 1, always 3 preLongs: count @8, theta @16, entries @24; no seed hash.

pub const MAX_THETA: u64 = i64::MAX as u64;
pub const F_READ_ONLY: u8 = 2;
pub const F_EMPTY: u8 = 4;
pub const F_COMPACT: u8 = 8;
pub const F_ORDERED: u8 = 16;
pub const F_SINGLE: u8 = 32;

#[derive(Clone, Debug, PartialEq)]
pub struct ThetaImage {
    pub ser_ver: u8,
    pub pre_longs: u8,
    pub flags: u8,
    pub seed_hash: u16,
    pub theta: u64,
    pub entries: Vec<u64>,
    pub empty: bool,
    /// v4 only
    pub entry_bits: u8,
    pub num_entries_bytes: u8,
}

fn rd_u64(b: &[u8], o: usize) -> Result<u64, String> {
    b.get(o..o + 8).map(|s| u64::from_le_bytes(s.try_into().unwrap())).ok_or_else(|| format!("truncated at {o}"))
}
fn rd_u32(b: &[u8], o: usize) -> Result<u32, String> {
    b.get(o..o + 4).map(|s| u32::from_le_bytes(s.try_into().unwrap())).ok_or_else(|| format!("truncated at {o}"))
}

/// Decode as a Java / C++ reader would (v3 and v4, the versions current writers emit).
pub fn decode(b: &[u8]) -> Result<ThetaImage, String> {
    if b.len() < 8 {
        return Err(format!("image of {} bytes", b.len()));
    }
    if b[2] != 3 {
        return Err(format!("family {}", b[2]));
    }
    let mut im = ThetaImage {
        ser_ver: b[1],
        pre_longs: b[0] & 0x3f,
        flags: b[5],
        seed_hash: u16::from_le_bytes([b[6], b[7]]),
        theta: MAX_THETA,
        entries: vec![],
        empty: b[5] & F_EMPTY != 0,
        entry_bits: 0,
        num_entries_bytes: 0,
    };
    match im.ser_ver {
        3 => {
            if im.empty {
                if im.pre_longs != 1 || b.len() != 8 {
                    return Err(format!("empty v3 image: preLongs {} length {}", im.pre_longs, b.len()));
                }
                return Ok(im);
            }
            let (n, start) = match im.pre_longs {
                1 => (1usize, 8usize),
                2 => (rd_u32(b, 8)? as usize, 16),
                3 => {
                    im.theta = rd_u64(b, 16)?;
                    (rd_u32(b, 8)? as usize, 24)
                }
                p => return Err(format!("preLongs {p}")),
            };
            if b.len() != start + 8 * n {
                return Err(format!("length {} but {} entries after a {}-byte preamble", b.len(), n, start));
            }
            for i in 0..n {
                im.entries.push(rd_u64(b, start + 8 * i)?);
            }
        }
        4 => {
            im.entry_bits = b[3];
            im.num_entries_bytes = b[4];
            let mut o = 8;
            match im.pre_longs {
                1 => {}
                2 => {
                    im.theta = rd_u64(b, 8)?;
                    o = 16;
                }
                p => return Err(format!("v4 preLongs {p}")),
            }
            let mut n = 0usize;
            for i in 0..im.num_entries_bytes as usize {
                n |= (*b.get(o + i).ok_or("truncated count")? as usize) << (8 * i);
            }
            o += im.num_entries_bytes as usize;
            let bits = im.entry_bits as usize;
            if bits == 0 || bits > 63 {
                return Err(format!("entryBits {bits}"));
            }
            let total_bits = n * bits;
            if b.len() != o + total_bits.div_ceil(8) {
                return Err(format!("length {} but {} entries of {} bits after byte {}", b.len(), n, bits, o));
            }
            let mut prev = 0u64;
            let mut bitpos = 0usize;
            for _ in 0..n {
                let mut v = 0u64;
                for _ in 0..bits {
                    let byte = b[o + bitpos / 8];
                    let bit = (byte >> (7 - bitpos % 8)) & 1;
                    v = (v << 1) | bit as u64;
                    bitpos += 1;
                }
                prev += v;
                im.entries.push(prev);
            }
        }
        v => return Err(format!("serVer {v} is not written by current implementations")),
    }
    Ok(im)
}

pub fn num_entries_bytes(n: usize) -> u8 {
    let bits = usize::BITS - n.leading_zeros();
    bits.div_ceil(8) as u8
}

/// v3 image. `single_flag`: write the single-item form (preLongs 1 + SINGLE flag) when applicable.
pub fn encode_v3(entries: &[u64], theta: u64, seed_hash: u16, ordered: bool, empty: bool, single_flag: bool) -> Vec<u8> {
    let est = theta < MAX_THETA;
    let single = !empty && !est && entries.len() == 1 && single_flag;
    let pre = if empty || single {
        1
    } else if est {
        3
    } else {
        2
    };
    let mut flags = F_READ_ONLY | F_COMPACT;
    if empty {
        flags |= F_EMPTY | F_ORDERED;
    }
    if ordered || single {
        flags |= F_ORDERED;
    }
    if single {
        flags |= F_SINGLE;
    }
    let mut b = vec![pre, 3, 3, 0, 0, flags];
    b.extend_from_slice(&seed_hash.to_le_bytes());
    if empty {
        return b;
    }
    if pre >= 2 {
        b.extend_from_slice(&(entries.len() as u32).to_le_bytes());
        b.extend_from_slice(&1.0f32.to_le_bytes()); // p
    }
    if pre == 3 {
        b.extend_from_slice(&theta.to_le_bytes());
    }
    for e in entries {
        b.extend_from_slice(&e.to_le_bytes());
    }
    b
}

/// v4 image (entries must be sorted ascending and non-empty).
pub fn encode_v4(entries: &[u64], theta: u64, seed_hash: u16) -> Vec<u8> {
    let est = theta < MAX_THETA;
    let mut ored = 0u64;
    let mut prev = 0u64;
    for &e in entries {
        ored |= e - prev;
        prev = e;
    }
    let bits = (64 - ored.leading_zeros()).max(1) as u8;
    let neb = num_entries_bytes(entries.len());
    let mut b = vec![if est { 2 } else { 1 }, 4, 3, bits, neb, F_READ_ONLY | F_COMPACT | F_ORDERED];
    b.extend_from_slice(&seed_hash.to_le_bytes());
    if est {
        b.extend_from_slice(&theta.to_le_bytes());
    }
    let mut n = entries.len();
    for _ in 0..neb {
        b.push((n & 0xff) as u8);
        n >>= 8;
    }
    let mut acc: Vec<u8> = vec![];
    let mut bitpos = 0usize;
    let mut prev = 0u64;
    for &e in entries {
        let d = e - prev;
        prev = e;
        for i in (0..bits).rev() {
            if bitpos % 8 == 0 {
                acc.push(0);
            }
            let bit = ((d >> i) & 1) as u8;
            *acc.last_mut().unwrap() |= bit << (7 - bitpos % 8);
            bitpos += 1;
        }
    }
    b.extend_from_slice(&acc);
    b
}

/// v2 image (entries sorted).
pub fn encode_v2(entries: &[u64], theta: u64, seed_hash: u16, empty: bool) -> Vec<u8> {
    let est = theta < MAX_THETA;
    let pre = if empty { 1 } else if est { 3 } else { 2 };
    let mut b = vec![pre, 2, 3, 0, 0, 0];
    b.extend_from_slice(&seed_hash.to_le_bytes());
    if empty {
        return b;
    }
    b.extend_from_slice(&(entries.len() as u32).to_le_bytes());
    b.extend_from_slice(&1.0f32.to_le_bytes());
    if est {
        b.extend_from_slice(&theta.to_le_bytes());
    }
    for e in entries {
        b.extend_from_slice(&e.to_le_bytes());
    }
    b
}

/// v1 image: always three preamble longs, no seed hash.
pub fn encode_v1(entries: &[u64], theta: u64) -> Vec<u8> {
    let mut b = vec![3, 1, 3, 0, 0, 0, 0, 0];
    b.extend_from_slice(&(entries.len() as u32).to_le_bytes());
    b.extend_from_slice(&1.0f32.to_le_bytes());
    b.extend_from_slice(&theta.to_le_bytes());
    for e in entries {
        b.extend_from_slice(&e.to_le_bytes());
    }
    b
}
