//! Independent codec for Frequent Items images (datasketches-java frequencies PreambleUtil,
//! datasketches-cpp frequent_items_sketch).
//!
//! Long 0: byte0 preLongs (1 empty, 4 otherwise), byte1 serVer 1, byte2 family 10,
//! byte3 lgMaxMapSize, byte4 lgCurMapSize, byte5 flags (empty: bit 2 in Java, bits 0 and 2 in C++),
//! bytes6-7 unused. Non-empty: activeItems u32 @8, unused u32 @12, streamWeight u64 @16,
//! offset u64 @24, then activeItems counts (u64), then the items (i64 / u64: 8 bytes LE each;
//! strings: u32 length + UTF-8 bytes).

#[derive(Clone, Debug, PartialEq)]
pub enum Items {
    Longs(Vec<u64>),
    Strings(Vec<String>),
}

#[derive(Clone, Debug, PartialEq)]
pub struct FiImage {
    pub lg_max: u8,
    pub lg_cur: u8,
    pub flags: u8,
    pub empty: bool,
    pub stream_weight: u64,
    pub offset: u64,
    pub counts: Vec<u64>,
    pub items: Items,
}

pub fn decode(b: &[u8], strings: bool) -> Result<FiImage, String> {
    if b.len() < 8 {
        return Err(format!("image of {} bytes: the preamble is one 8-byte long", b.len()));
    }
    if b[1] != 1 || b[2] != 10 {
        return Err(format!("serVer {} family {}", b[1], b[2]));
    }
    let pre = b[0] & 0x3f;
    let flags = b[5];
    let empty = flags & 5 != 0;
    let mut im = FiImage {
        lg_max: b[3],
        lg_cur: b[4],
        flags,
        empty,
        stream_weight: 0,
        offset: 0,
        counts: vec![],
        items: if strings { Items::Strings(vec![]) } else { Items::Longs(vec![]) },
    };
    if empty {
        if pre != 1 || b.len() != 8 {
            return Err(format!("empty image: preLongs {pre} length {}", b.len()));
        }
        return Ok(im);
    }
    if pre != 4 {
        return Err(format!("non-empty image with preLongs {pre}"));
    }
    let u32at = |o: usize| b.get(o..o + 4).map(|s| u32::from_le_bytes(s.try_into().unwrap())).ok_or_else(|| format!("truncated at {o}"));
    let u64at = |o: usize| b.get(o..o + 8).map(|s| u64::from_le_bytes(s.try_into().unwrap())).ok_or_else(|| format!("truncated at {o}"));
    let n = u32at(8)? as usize;
    im.stream_weight = u64at(16)?;
    im.offset = u64at(24)?;
    let mut o = 32;
    for _ in 0..n {
        im.counts.push(u64at(o)?);
        o += 8;
    }
    if strings {
        let mut v = vec![];
        for _ in 0..n {
            let len = u32at(o)? as usize;
            o += 4;
            let s = b.get(o..o + len).ok_or("truncated string")?;
            v.push(String::from_utf8(s.to_vec()).map_err(|_| "invalid UTF-8")?);
            o += len;
        }
        im.items = Items::Strings(v);
    } else {
        let mut v = vec![];
        for _ in 0..n {
            v.push(u64at(o)?);
            o += 8;
        }
        im.items = Items::Longs(v);
    }
    if o != b.len() {
        return Err(format!("{} trailing bytes", b.len() - o));
    }
    Ok(im)
}

/// `empty_flags`: the flag byte of an empty image (4 = Java, 5 = C++)
pub fn encode(im: &FiImage, empty_flags: u8) -> Vec<u8> {
    if im.empty {
        return vec![1, 1, 10, im.lg_max, im.lg_cur, empty_flags, 0, 0];
    }
    let mut b = vec![4, 1, 10, im.lg_max, im.lg_cur, 0, 0, 0];
    b.extend_from_slice(&(im.counts.len() as u32).to_le_bytes());
    b.extend_from_slice(&0u32.to_le_bytes());
    b.extend_from_slice(&im.stream_weight.to_le_bytes());
    b.extend_from_slice(&im.offset.to_le_bytes());
    for c in &im.counts {
        b.extend_from_slice(&c.to_le_bytes());
    }
    match &im.items {
        Items::Longs(v) => {
            for x in v {
                b.extend_from_slice(&x.to_le_bytes());
            }
        }
        Items::Strings(v) => {
            for s in v {
                b.extend_from_slice(&(s.len() as u32).to_le_bytes());
                b.extend_from_slice(s.as_bytes());
            }
        }
    }
    b
}
