//! CPC model: the k x 64 bit matrix of distinct (row, col) coupons, plus the spec formulas for
//! flavor and window offset evaluated in 64-bit arithmetic, and the exact arrival-time simulator.

use crate::kit::SplitMix;

#[derive(Clone, Debug)]
pub struct CpcModel {
    pub lg_k: u8,
    pub rows: Vec<u64>,
    pub col_cnt: [u32; 64],
    pub c: u64,
}

/// 0 Empty, 1 Sparse, 2 Hybrid, 3 Pinned, 4 Sliding (C vs K thresholds of the CPC paper / Java).
pub fn flavor(lg_k: u8, c: u64) -> u8 {
    let k = 1u64 << lg_k;
    if c == 0 {
        0
    } else if 32 * c < 3 * k {
        1
    } else if 2 * c < k {
        2
    } else if 8 * c < 27 * k {
        3
    } else {
        4
    }
}

/// floor((8C - 19K) / 8K), 0 when negative
pub fn correct_offset(lg_k: u8, c: u64) -> u8 {
    let k = 1i128 << lg_k;
    let tmp = 8 * c as i128 - 19 * k;
    if tmp < 0 {
        0
    } else {
        (tmp / (8 * k)) as u8
    }
}

impl CpcModel {
    pub fn new(lg_k: u8) -> Self {
        CpcModel { lg_k, rows: vec![0; 1 << lg_k], col_cnt: [0; 64], c: 0 }
    }
    pub fn k(&self) -> u64 {
        1 << self.lg_k
    }
    /// returns true when novel
    pub fn offer(&mut self, row_col: u32) -> bool {
        let row = (row_col >> 6) as usize;
        let col = row_col & 63;
        let bit = 1u64 << col;
        if self.rows[row] & bit == 0 {
            self.rows[row] |= bit;
            self.col_cnt[col as usize] += 1;
            self.c += 1;
            true
        } else {
            false
        }
    }
    pub fn has(&self, row_col: u32) -> bool {
        self.rows[(row_col >> 6) as usize] & (1u64 << (row_col & 63)) != 0
    }
    /// Number of "surprising values" a sketch with this matrix stores at window offset `off`
    /// (`windowed` = sliding window allocated, i.e. flavor >= Hybrid).
    pub fn surprises(&self, off: u8, windowed: bool) -> u64 {
        let k = self.k();
        if !windowed {
            return self.c;
        }
        let mut s = 0u64;
        for col in 0..64u8 {
            let cnt = self.col_cnt[col as usize] as u64;
            if col < off {
                s += k - cnt;
            } else if col >= off + 8 {
                s += cnt;
            }
        }
        s
    }
    /// the largest number of entries the pair table can hold (3/4 of 2^(lg_k+5) slots)
    pub fn table_capacity(&self) -> u64 {
        3 * (1u64 << (self.lg_k + 5)) / 4
    }
    /// Would offering this coupon keep the surprising-value table within its structural capacity
    /// (a limit shared with the Java / C++ implementations)? Leaves a safety margin of 1/8.
    pub fn fits_capacity(&self, row_col: u32) -> bool {
        if self.has(row_col) {
            return true;
        }
        let limit = self.table_capacity() - self.table_capacity() / 8;
        let mut m = MiniCnt { col_cnt: self.col_cnt, c: self.c, k: self.k() };
        m.col_cnt[(row_col & 63) as usize] += 1;
        m.c += 1;
        let f_pre = flavor(self.lg_k, self.c);
        let f_post = flavor(self.lg_k, m.c);
        let o_pre = correct_offset(self.lg_k, self.c);
        let o_post = correct_offset(self.lg_k, m.c);
        m.surprises(o_pre, f_pre >= 2) <= limit && m.surprises(o_post, f_post >= 2) <= limit
    }
    /// sum over UNSET bits of 2^-(col+1), accumulated from the high columns down
    pub fn kxp(&self) -> f64 {
        let k = self.k();
        let mut t = 0.0f64;
        for col in (0..64usize).rev() {
            let unset = k - self.col_cnt[col] as u64;
            // 2^-(col+1), exact
            t += unset as f64 * f64::from_bits((1022 - col as u64) << 52);
        }
        t
    }
    pub fn fold_to(&self, lg: u8) -> Vec<u64> {
        let mut out = vec![0u64; 1 << lg];
        let mask = (1usize << lg) - 1;
        for (i, &r) in self.rows.iter().enumerate() {
            out[i & mask] |= r;
        }
        out
    }
}

struct MiniCnt {
    col_cnt: [u32; 64],
    c: u64,
    k: u64,
}
impl MiniCnt {
    fn surprises(&self, off: u8, windowed: bool) -> u64 {
        if !windowed {
            return self.c;
        }
        let mut s = 0u64;
        for col in 0..64u8 {
            let cnt = self.col_cnt[col as usize] as u64;
            if col < off {
                s += self.k - cnt;
            } else if col >= off + 8 {
                s += cnt;
            }
        }
        s
    }
}

/// Exact (Poissonized) arrival simulation: each cell (row, col) receives its first hit at an
/// Exp(rate = 2^-(col+1) / k) time; cells whose time is <= n are returned in time order.
/// `warp[col]` multiplies the arrival times of a column (1.0 = the law of a real hashed stream).
pub fn simulate(lg_k: u8, n: f64, seed: u64, warp: Option<&[f64; 64]>) -> Vec<u32> {
    simulate_timed(lg_k, n, seed, warp).into_iter().map(|x| x.1).collect()
}

/// Same, returning (arrival time, coupon) pairs in time order.
pub fn simulate_timed(lg_k: u8, n: f64, seed: u64, warp: Option<&[f64; 64]>) -> Vec<(f64, u32)> {
    let k = 1u32 << lg_k;
    let mut sm = SplitMix(seed);
    let mut cells: Vec<(f64, u32)> = vec![];
    for col in 0..64u32 {
        // P(col) = 2^-(col+1), except the last column which absorbs the tail
        let p = if col < 63 { (-(col as f64 + 1.0)).exp2() } else { (-63.0f64).exp2() };
        let rate = p / k as f64;
        let w = warp.map(|w| w[col as usize]).unwrap_or(1.0);
        // probability that a given cell of this column fires before n
        let pfire = 1.0 - (-(rate * n / w)).exp();
        if pfire < 1e-12 * (1.0 / k as f64) {
            continue;
        }
        for row in 0..k {
            let u = sm.unit();
            if u < pfire {
                // conditional arrival time given it is <= n (inverse CDF of the truncated exponential)
                let v = sm.unit();
                let t = -(1.0 - v * pfire).ln() / rate * w;
                cells.push((t, (row << 6) | col));
            }
        }
    }
    cells.sort_by(|a, b| a.0.partial_cmp(&b.0).unwrap().then(a.1.cmp(&b.1)));
    cells
}
