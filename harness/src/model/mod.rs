//! Reference models (textbook semantics; share no code with the crate).
pub mod hll;
