//! Reference models (textbook semantics; share no code with the crate).
pub mod cpc;
pub mod hll;
