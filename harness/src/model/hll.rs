//! Textbook HLL model: distinct coupon set + per-slot maximum.

use std::collections::BTreeSet;

pub const KEY_MASK_26: u32 = (1 << 26) - 1;

#[derive(Clone, Debug)]
pub struct HllModel {
    pub lg_k: u8,
    /// all distinct coupons offered (kept while small enough to matter for list/set mode)
    pub coupons: BTreeSet<u32>,
    /// set when the coupon set was dropped because the sketch can no longer be sparse
    pub coupons_dropped: bool,
    pub regs: Vec<u8>,
    pub distinct: u64,
}

impl HllModel {
    pub fn new(lg_k: u8) -> Self {
        HllModel { lg_k, coupons: BTreeSet::new(), coupons_dropped: false, regs: vec![0; 1 << lg_k], distinct: 0 }
    }
    pub fn k(&self) -> usize {
        1 << self.lg_k
    }
    /// the largest number of coupons a sparse (list/set) sketch can hold before promotion
    pub fn sparse_limit(&self) -> usize {
        if self.lg_k < 8 {
            8
        } else {
            // set of lg size lg_k-3 promotes when 4*len > 3*cap
            (3 * (1usize << (self.lg_k - 3))) / 4 + 1
        }
    }
    pub fn offer(&mut self, coupon: u32) {
        let slot = (coupon & KEY_MASK_26) as usize & (self.k() - 1);
        let val = (coupon >> 26) as u8;
        if val > self.regs[slot] {
            self.regs[slot] = val;
        }
        if !self.coupons_dropped {
            if self.coupons.insert(coupon) {
                self.distinct += 1;
            }
            if self.coupons.len() > self.sparse_limit() + 8 {
                self.coupons_dropped = true;
                self.coupons.clear();
            }
        }
    }
    /// Predicted storage mode (0 list, 1 set, 2 array) and set lg size, as a function of the
    /// number of distinct coupons (valid while !coupons_dropped; array afterwards).
    pub fn predicted_mode(&self) -> (u8, usize) {
        if self.coupons_dropped {
            return (2, 0);
        }
        let n = self.coupons.len();
        if n < 8 {
            return (0, 3);
        }
        if self.lg_k < 8 {
            return (2, 0);
        }
        // set mode: starts at lg 5 (32 slots), grows while 4n > 3*cap, promotes at lg_k-3
        let mut lg = 5usize;
        loop {
            if 4 * n > 3 * (1usize << lg) {
                if lg == self.lg_k as usize - 3 {
                    return (2, 0);
                }
                lg += 1;
            } else {
                return (1, lg);
            }
        }
    }
    pub fn kxq(&self) -> (f64, f64) {
        let mut a = 0.0f64;
        let mut b = 0.0f64;
        // sum small terms first for accuracy
        let mut hist = [0u64; 64];
        for &r in &self.regs {
            hist[r as usize] += 1;
        }
        for v in (0..64usize).rev() {
            let t = hist[v] as f64 * (-(v as f64)).exp2();
            if v < 32 {
                a += t;
            } else {
                b += t;
            }
        }
        (a, b)
    }
    pub fn fold_to(&self, lg: u8) -> Vec<u8> {
        assert!(lg <= self.lg_k);
        let mut out = vec![0u8; 1 << lg];
        for (i, &r) in self.regs.iter().enumerate() {
            let j = i & ((1 << lg) - 1);
            if r > out[j] {
                out[j] = r;
            }
        }
        out
    }
}
