//! Property registry.

use crate::kit::report::Report;
use crate::kit::runner::{Ctx, Sub};

pub mod c01;
pub mod c02;
pub mod c03;
pub mod c04;
pub mod c05;
pub mod c06;
pub mod c07;
pub mod c08;
pub mod c09;
pub mod c10;
pub mod c11;
pub mod c12;
pub mod c13;
pub mod c14;
pub mod c15;
pub mod c16;
pub mod c17;
pub mod c18;
pub mod ser_hll;
pub mod ser_misc;
pub mod ser_theta;

pub struct PropDef {
    pub id: &'static str,
    pub assumptions: Vec<&'static str>,
    pub subs: Vec<Box<dyn Sub>>,
    /// optional post-processing (e.g. merging a child process' report)
    pub post: Option<fn(&Ctx, &mut Report)>,
}

pub fn get(id: &str) -> Option<PropDef> {
    match id {
        "C01" => Some(c01::def()),
        "C02" => Some(c02::def()),
        "C03" => Some(c03::def()),
        "C04" => Some(c04::def()),
        "C05" => Some(c05::def()),
        "C06" => Some(c06::def()),
        "C07" => Some(c07::def()),
        "C08" => Some(c08::def()),
        "C09" => Some(c09::def()),
        "C10" => Some(c10::def()),
        "C11" => Some(c11::def()),
        "C12" => Some(c12::def()),
        "C13" => Some(c13::def()),
        "C14" => Some(c14::def()),
        "C15" => Some(c15::def()),
        "C16" => Some(c16::def()),
        "C17" => Some(c17::def()),
        "C18" => Some(c18::def()),
        _ => None,
    }
}
