//! C06 - CPC union equals the OR of its inputs' bit matrices folded to the smallest lg_k.

use super::c05::{self, Op};
use super::PropDef;
use crate::kit::runner::{CaseInfo, Fail, PropSub};
use crate::kit::{pick_idx, SplitMix};
use crate::model::cpc::{correct_offset, flavor, CpcModel};
use datasketches::cpc::{CpcSketch, CpcUnion};
use proptest::prelude::*;
use serde::{Deserialize, Serialize};
use std::collections::BTreeSet;

#[derive(Debug, Clone, Serialize, Deserialize)]
pub struct InputSpec {
    pub lg_k: u8,
    pub ops: Vec<Op>,
    pub roundtrip: bool,
}

#[derive(Debug, Clone, Serialize, Deserialize)]
pub struct Case {
    pub union_lg_k: u8,
    pub seed: u64,
    pub inputs: Vec<InputSpec>,
    /// feed order: indices (u16 fractions) into inputs; may repeat
    pub feeds: Vec<u16>,
    pub perm_seed: u64,
}

fn input_strategy() -> impl Strategy<Value = InputSpec> {
    (4u8..=12, proptest::collection::vec(c05::op_strategy(), 0..5), any::<bool>())
        .prop_map(|(lg_k, ops, roundtrip)| InputSpec { lg_k, ops, roundtrip })
}

pub fn case_strategy() -> impl Strategy<Value = Case> {
    (
        4u8..=12,
        c05::seed_strategy(),
        proptest::collection::vec(input_strategy(), 0..=6),
        proptest::collection::vec(any::<u16>(), 0..10),
        any::<u64>(),
    )
        .prop_map(|(union_lg_k, seed, inputs, feeds, perm_seed)| Case { union_lg_k, seed, inputs, feeds, perm_seed })
}

pub struct Built {
    pub sk: CpcSketch,
    pub model: CpcModel,
}

pub fn build(spec: &InputSpec, seed: u64) -> Result<Built, Fail> {
    let mut sk = CpcSketch::with_seed(spec.lg_k, seed);
    let mut m = CpcModel::new(spec.lg_k);
    for op in &spec.ops {
        let mut cs = vec![];
        c05::expand(op, spec.lg_k, seed, &mut cs);
        for rc in cs {
            if !m.fits_capacity(rc) {
                continue;
            }
            m.offer(rc);
            sk.verif_row_col_update(rc);
        }
    }
    if spec.roundtrip {
        let bytes = sk.serialize();
        sk = CpcSketch::deserialize_with_seed(&bytes, seed).map_err(|e| Fail {
            clause: "C06.input.roundtrip_rejected".into(),
            detail: format!("crate rejects its own CPC image: {e}"),
        })?;
    }
    Ok(Built { sk, model: m })
}

pub fn expected(union_lg_k: u8, fed: &[&CpcModel]) -> (u8, Vec<u64>) {
    let mut lg = union_lg_k;
    for m in fed {
        if m.c > 0 {
            lg = lg.min(m.lg_k);
        }
    }
    let mut rows = vec![0u64; 1 << lg];
    for m in fed {
        if m.c > 0 {
            for (i, r) in m.fold_to(lg).into_iter().enumerate() {
                rows[i] |= r;
            }
        }
    }
    (lg, rows)
}

pub fn check_result(u: &CpcUnion, lg: u8, rows: &[u64], seed: u64, ctx: &str) -> Result<CpcSketch, Fail> {
    ensure!(u.lg_k() == lg, "C06.lg_k", "{ctx}: union lg_k {} expected {}", u.lg_k(), lg);
    let pop: u64 = rows.iter().map(|r| r.count_ones() as u64).sum();
    ensure!(u.num_coupons() as u64 == pop, "C06.union_num_coupons", "{ctx}: union num_coupons {} expected {}", u.num_coupons(), pop);
    let r = u.to_sketch();
    ensure!(r.lg_k() == lg, "C06.result_lg_k", "{ctx}: result lg_k {} expected {}", r.lg_k(), lg);
    ensure!(r.num_coupons() as u64 == pop, "C06.num_coupons", "{ctx}: result num_coupons {} but OR of inputs has {} bits", r.num_coupons(), pop);
    ensure!(r.validate(), "C06.validate", "{ctx}: validate() false on the result");
    let mat = r.verif_bit_matrix();
    if mat != rows {
        let i = (0..rows.len()).find(|&i| mat.get(i) != rows.get(i)).unwrap_or(0);
        fail!(
            "C06.matrix",
            "{ctx}: result row {i} = {:#018x} expected {:#018x} (lg_k {lg}, C = {pop})",
            mat.get(i).copied().unwrap_or(0),
            rows[i]
        );
    }
    let st = r.verif_state();
    ensure!(st.merge_flag, "C06.merge_flag", "{ctx}: result sketch is not marked as merged (C = {pop})");
    ensure!(st.window_offset == correct_offset(lg, pop), "C06.window_offset", "{ctx}: offset {} expected {}", st.window_offset, correct_offset(lg, pop));
    ensure!(st.flavor == flavor(lg, pop), "C06.flavor", "{ctx}: flavor {} expected {}", st.flavor, flavor(lg, pop));
    ensure!(st.has_window == (flavor(lg, pop) >= 2), "C06.window_allocation", "{ctx}: window allocated {} in flavor {}", st.has_window, flavor(lg, pop));
    let mut col_cnt = [0u64; 64];
    for &row in rows {
        for (c, cnt) in col_cnt.iter_mut().enumerate() {
            *cnt += (row >> c) & 1;
        }
    }
    for col in 0..st.first_interesting_column.min(64) as usize {
        ensure!(
            col_cnt[col] == rows.len() as u64,
            "C06.first_interesting_column",
            "{ctx}: first_interesting_column {} but column {col} is not full",
            st.first_interesting_column
        );
    }
    let e = r.estimate();
    ensure!(e.is_finite() && ((pop == 0) == (e == 0.0)), "C06.estimate", "{ctx}: estimate {e} with C = {pop}");
    // the image carries no HIP section and round-trips
    let img = r.serialize();
    ensure!(img[5] & (1 << 2) == 0, "C06.image_has_hip_flag", "{ctx}: merged sketch image has the HIP flag set");
    // the result belongs to the union's seed: its image carries that seed's hash, reads back under that seed,
    // and it can be fed to another union of that seed
    if pop > 0 {
        let sh = u16::from_le_bytes([img[6], img[7]]);
        ensure!(sh == crate::kit::refhash::seed_hash(seed), "C06.result_seed", "{ctx}: result image carries seed hash {sh}, the union's seed {seed:#x} has {}", crate::kit::refhash::seed_hash(seed));
    }
    let back = CpcSketch::deserialize_with_seed(&img, seed).map_err(|e| Fail { clause: "C06.result_seed".into(), detail: format!("{ctx}: result image rejected under the union's seed: {e}") })?;
    ensure!(back.num_coupons() as u64 == pop, "C06.result_roundtrip", "{ctx}: result read back with {} coupons, expected {pop}", back.num_coupons());
    let fed = crate::kit::runner::guard(|| {
        let mut u3 = CpcUnion::with_seed(lg, seed);
        u3.update(&r);
        Ok(u3.num_coupons())
    })
    .map_err(|f| Fail { clause: "C06.result_seed".into(), detail: format!("{ctx}: the result cannot be fed to a union of the same seed: {}", f.detail) })?;
    ensure!(fed as u64 == pop, "C06.result_refeed", "{ctx}: a second union fed with the result holds {fed} coupons, expected {pop}");
    Ok(r)
}

pub fn run_case(c: &Case, info: &mut CaseInfo) -> Result<(), Fail> {
    let mut built = vec![];
    for i in &c.inputs {
        built.push(build(i, c.seed)?);
    }
    let mut u = CpcUnion::with_seed(c.union_lg_k, c.seed);
    let mut fed: Vec<usize> = vec![];
    let (lg, rows) = expected(c.union_lg_k, &[]);
    check_result(&u, lg, &rows, c.seed, "empty union")?;
    let mut shapes = BTreeSet::new();
    let mut windowed = false;
    for (si, f) in c.feeds.iter().enumerate() {
        if built.is_empty() {
            break;
        }
        let j = pick_idx(*f, built.len());
        u.update(&built[j].sk);
        fed.push(j);
        let models: Vec<&CpcModel> = fed.iter().map(|&j| &built[j].model).collect();
        let (lg, rows) = expected(c.union_lg_k, &models);
        let fl = flavor(built[j].model.lg_k, built[j].model.c);
        let ctx = format!("after feed #{si} (input {j}: lg_k {} flavor {} roundtrip {})", built[j].model.lg_k, fl, c.inputs[j].roundtrip);
        let r = check_result(&u, lg, &rows, c.seed, &ctx)?;
        // to_sketch must not disturb the union
        let r2 = u.to_sketch();
        ensure!(r2.verif_bit_matrix() == r.verif_bit_matrix(), "C06.to_sketch_mutates", "{ctx}: a second to_sketch differs");
        if built[j].model.c > 0 {
            shapes.insert((built[j].model.lg_k, fl));
            windowed |= fl >= 2;
        }
        info.label(format!("input_flavor={}", ["Empty", "Sparse", "Hybrid", "Pinned", "Sliding"][fl as usize]));
    }
    // order / repetition independence
    if !fed.is_empty() {
        let mut order = fed.clone();
        let mut sm = SplitMix(c.perm_seed);
        for _ in 0..(1 + sm.below(3)) {
            order.push(fed[sm.below(fed.len() as u64) as usize]);
        }
        for i in (1..order.len()).rev() {
            let j = sm.below(i as u64 + 1) as usize;
            order.swap(i, j);
        }
        let mut u2 = CpcUnion::with_seed(c.union_lg_k, c.seed);
        for &j in &order {
            u2.update(&built[j].sk);
        }
        let models: Vec<&CpcModel> = fed.iter().map(|&j| &built[j].model).collect();
        let (lg, rows) = expected(c.union_lg_k, &models);
        check_result(&u2, lg, &rows, c.seed, "permuted + repeated replay")?;
    }
    info.nontrivial = shapes.len() >= 2 && windowed;
    if windowed {
        info.label("windowed_input");
    }
    Ok(())
}

pub fn def() -> PropDef {
    PropDef {
        id: "C06",
        assumptions: vec![
            "inputs are built by the C05 generators (hashed keys, crafted coupons, exact arrival simulations), whose matrices are tracked by the model",
            "result lg_k rule: min(union lg_k, lg_k of non-empty inputs)",
        ],
        subs: vec![Box::new(PropSub {
            name: "union_vs_or_of_matrices",
            rule: "union lg_k 4..=12, 0..6 inputs of lg_k 4..=12 in every flavor (fresh or round-tripped), 0..9 feeds with repetition; after every feed: union lg_k, result matrix == OR of folded input matrices, num_coupons == popcount, validate(), merge flag (state and image), window offset / flavor / first_interesting_column consistency, to_sketch idempotent; permuted + repeated replay. non-trivial = >= 2 distinct non-empty (lg_k, flavor) inputs, one of them windowed",
            cases_quick: 60_000,
            cases_thorough: 200_000,
            max_shrink_iters: 2000,
            limit_factor: 1,
            strategy: case_strategy,
            check: run_case,
        })],
        post: None,
    }
}
