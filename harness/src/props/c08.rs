//! C08 - Count-Min never under-counts; its table is the exact sum of hashed weights.

use super::PropDef;
use crate::kit::draw::Draw;
use crate::kit::refhash::{self, Recorder};
use crate::kit::report::SubReport;
use crate::kit::runner::{CaseInfo, Ctx, Fail, FnSub, PropSub};
use crate::kit::{pick_idx, SplitMix};
use datasketches::countmin::{CountMinSketch, CountMinValue};
use proptest::prelude::*;
use serde::{Deserialize, Serialize};
use serde_json::json;

#[derive(Debug, Clone, Serialize, Deserialize)]
pub enum Step {
    Update { sk: u8, item: u16 },
    /// weight = 1 + frac/65536 * min(cap, headroom)
    UpdateW { sk: u8, item: u16, frac: u16, big: bool },
    Burst { sk: u8, n: u16, seed: u64 },
    Merge { dst: u8, src: u8 },
    Halve { sk: u8 },
    Decay { sk: u8, d: u16 },
    RoundTrip { sk: u8 },
}

#[derive(Debug, Clone, Serialize, Deserialize)]
pub struct Case {
    /// 0..8 = u8,u16,u32,u64,i8,i16,i32,i64
    pub ty: u8,
    pub num_hashes: u8,
    pub num_buckets: u32,
    pub seed: u64,
    pub strings: bool,
    pub n_sketches: u8,
    pub steps: Vec<Step>,
}

fn step_strategy() -> impl Strategy<Value = Step> {
    prop_oneof![
        10 => (any::<u8>(), any::<u16>()).prop_map(|(sk, item)| Step::Update { sk, item }),
        8 => (any::<u8>(), any::<u16>(), prop_oneof![1 => Just(0u16), 2 => Just(65535u16), 20 => any::<u16>()], proptest::bool::weighted(0.15))
            .prop_map(|(sk, item, frac, big)| Step::UpdateW { sk, item, frac, big }),
        3 => (any::<u8>(), 1u16..=400, any::<u64>()).prop_map(|(sk, n, seed)| Step::Burst { sk, n, seed }),
        3 => (any::<u8>(), any::<u8>()).prop_map(|(dst, src)| Step::Merge { dst, src }),
        1 => any::<u8>().prop_map(|sk| Step::Halve { sk }),
        // d = 65535 is a decay factor of exactly 1.0
        1 => (any::<u8>(), prop_oneof![1 => Just(65535u16), 1 => Just(32767u16), 6 => any::<u16>()]).prop_map(|(sk, d)| Step::Decay { sk, d }),
        2 => any::<u8>().prop_map(|sk| Step::RoundTrip { sk }),
    ]
}

fn seed_strategy() -> impl Strategy<Value = u64> {
    prop_oneof![2 => Just(9001u64), 1 => any::<u64>(), 1 => Just(0u64)]
        .prop_filter("seed hash must be non-zero", |s| refhash::seed_hash(*s) != 0)
}

pub fn case_strategy() -> impl Strategy<Value = Case> {
    (
        0u8..8,
        1u8..=8,
        prop_oneof![3 => 3u32..=40, 2 => 3u32..=512],
        seed_strategy(),
        any::<bool>(),
        1u8..=3,
        proptest::collection::vec(step_strategy(), 1..60),
    )
        .prop_map(|(ty, num_hashes, num_buckets, seed, strings, n_sketches, steps)| Case {
            ty,
            num_hashes,
            num_buckets,
            seed,
            strings,
            n_sketches,
            steps,
        })
}

/// Harness-side view of the eight counter types.
pub trait Cnt: CountMinValue + std::fmt::Debug {
    const NAME: &'static str;
    const MAXV: u64;
    const UNSIGNED: bool;
    fn from_u64(v: u64) -> Self;
    fn to_u64(self) -> u64;
    fn halve_(self) -> Self;
    fn decay_(self, d: f64) -> Self;
    fn sk_halve(sk: &mut CountMinSketch<Self>);
    fn sk_decay(sk: &mut CountMinSketch<Self>, d: f64);
}
macro_rules! cnt_unsigned {
    ($t:ty, $n:expr) => {
        impl Cnt for $t {
            const NAME: &'static str = $n;
            const MAXV: u64 = <$t>::MAX as u64;
            const UNSIGNED: bool = true;
            fn from_u64(v: u64) -> Self {
                v as $t
            }
            fn to_u64(self) -> u64 {
                self as u64
            }
            fn halve_(self) -> Self {
                self / 2
            }
            fn decay_(self, d: f64) -> Self {
                // documented semantics: multiply by the factor, truncate toward zero
                ((self as f64) * d).trunc() as $t
            }
            fn sk_halve(sk: &mut CountMinSketch<Self>) {
                sk.halve()
            }
            fn sk_decay(sk: &mut CountMinSketch<Self>, d: f64) {
                sk.decay(d)
            }
        }
    };
}
macro_rules! cnt_signed {
    ($t:ty, $n:expr) => {
        impl Cnt for $t {
            const NAME: &'static str = $n;
            const MAXV: u64 = <$t>::MAX as u64;
            const UNSIGNED: bool = false;
            fn from_u64(v: u64) -> Self {
                v as $t
            }
            fn to_u64(self) -> u64 {
                self as u64
            }
            fn halve_(self) -> Self {
                self
            }
            fn decay_(self, _d: f64) -> Self {
                self
            }
            fn sk_halve(_sk: &mut CountMinSketch<Self>) {}
            fn sk_decay(_sk: &mut CountMinSketch<Self>, _d: f64) {}
        }
    };
}
cnt_unsigned!(u8, "u8");
cnt_unsigned!(u16, "u16");
cnt_unsigned!(u32, "u32");
cnt_unsigned!(u64, "u64");
cnt_signed!(i8, "i8");
cnt_signed!(i16, "i16");
cnt_signed!(i32, "i32");
cnt_signed!(i64, "i64");

pub fn item_bytes(id: u64, strings: bool) -> Vec<u8> {
    if strings {
        Recorder::bytes_of(&format!("key/{id}").as_str())
    } else {
        Recorder::bytes_of(&id)
    }
}

pub fn buckets_of(bytes: &[u8], seed: u64, num_hashes: u8, num_buckets: u32) -> Vec<usize> {
    (0..num_hashes as u64)
        .map(|row| {
            let row_seed = refhash::murmur3_x64_128(&row.to_le_bytes(), seed).0;
            (refhash::murmur3_x64_128(bytes, row_seed).0 % num_buckets as u64) as usize
        })
        .collect()
}

/// Independent decoder of the Count-Min image (preamble longs 2, serVer 1, family 18).
pub struct CmImage {
    pub empty: bool,
    pub num_buckets: u32,
    pub num_hashes: u8,
    pub seed_hash: u16,
    pub total: [u8; 8],
    pub cells: Vec<[u8; 8]>,
}
pub fn decode_image(b: &[u8]) -> Result<CmImage, String> {
    if b.len() < 16 {
        return Err(format!("image of {} bytes", b.len()));
    }
    if b[0] != 2 || b[1] != 1 || b[2] != 18 {
        return Err(format!("preamble {:?}", &b[..3]));
    }
    let empty = b[3] & 1 != 0;
    let num_buckets = u32::from_le_bytes(b[8..12].try_into().unwrap());
    let num_hashes = b[12];
    let seed_hash = u16::from_le_bytes([b[13], b[14]]);
    let mut im = CmImage { empty, num_buckets, num_hashes, seed_hash, total: [0; 8], cells: vec![] };
    if empty {
        if b.len() != 16 {
            return Err(format!("empty image has {} bytes", b.len()));
        }
        return Ok(im);
    }
    let n = num_buckets as usize * num_hashes as usize;
    if b.len() != 16 + 8 + 8 * n {
        return Err(format!("image has {} bytes, layout needs {}", b.len(), 24 + 8 * n));
    }
    im.total = b[16..24].try_into().unwrap();
    im.cells = b[24..].chunks(8).map(|c| c.try_into().unwrap()).collect();
    Ok(im)
}

struct Side<T: Cnt> {
    sk: CountMinSketch<T>,
    table: Vec<u64>,
    truth: Vec<u64>,
    total: u64,
}

fn check_side<T: Cnt>(s: &Side<T>, c: &Case, domain: usize, bk: &[Vec<usize>], ctx: &str) -> Result<(), Fail> {
    let nb = c.num_buckets as usize;
    ensure!(
        s.sk.total_weight().to_u64() == s.total,
        "C08.total_weight",
        "{ctx}: total_weight {:?} but the exact sum is {}",
        s.sk.total_weight(),
        s.total
    );
    let img = decode_image(&s.sk.serialize()).map_err(|e| Fail { clause: "C08.image_layout".into(), detail: format!("{ctx}: {e}") })?;
    ensure!(img.empty == (s.total == 0), "C08.image_empty_flag", "{ctx}: empty flag {} with total {}", img.empty, s.total);
    ensure!(
        img.num_buckets == c.num_buckets && img.num_hashes == c.num_hashes && img.seed_hash == refhash::seed_hash(c.seed),
        "C08.image_config",
        "{ctx}: image config ({}, {}, {})",
        img.num_buckets,
        img.num_hashes,
        img.seed_hash
    );
    if !img.empty {
        ensure!(u64::from_le_bytes(img.total) == s.total, "C08.image_total", "{ctx}: image total {:?}", img.total);
        for (i, cell) in img.cells.iter().enumerate() {
            let v = u64::from_le_bytes(*cell);
            ensure!(
                v == s.table[i],
                "C08.table",
                "{ctx}: cell (row {}, bucket {}) = {} but the model table has {}",
                i / nb,
                i % nb,
                v,
                s.table[i]
            );
        }
    }
    for id in 0..domain {
        let want = bk[id].iter().enumerate().map(|(row, &b)| s.table[row * nb + b]).min().unwrap();
        let est = if c.strings {
            s.sk.estimate(format!("key/{id}").as_str())
        } else {
            s.sk.estimate(id as u64)
        }
        .to_u64();
        ensure!(est == want, "C08.estimate_vs_table", "{ctx}: estimate({id}) = {est} but min over rows of the model is {want}");
        ensure!(est >= s.truth[id], "C08.undercount", "{ctx}: estimate({id}) = {est} < true weight {}", s.truth[id]);
        ensure!(est <= s.total, "C08.estimate_above_total", "{ctx}: estimate({id}) = {est} > total_weight {}", s.total);
        let (lb, ub) = if c.strings {
            (s.sk.lower_bound(format!("key/{id}").as_str()), s.sk.upper_bound(format!("key/{id}").as_str()))
        } else {
            (s.sk.lower_bound(id as u64), s.sk.upper_bound(id as u64))
        };
        ensure!(lb.to_u64() <= est, "C08.lower_bound", "{ctx}: lower_bound({id}) {:?} > estimate {est}", lb);
        let _ = ub;
    }
    Ok(())
}

fn run_typed<T: Cnt>(c: &Case, info: &mut CaseInfo) -> Result<(), Fail> {
    let nb = c.num_buckets as usize;
    let cells = nb * c.num_hashes as usize;
    let domain = (4 * nb).min(600);
    let bk: Vec<Vec<usize>> =
        (0..domain).map(|id| buckets_of(&item_bytes(id as u64, c.strings), c.seed, c.num_hashes, c.num_buckets)).collect();
    let n_sk = c.n_sketches.max(1) as usize;
    let mut sides: Vec<Side<T>> = (0..n_sk)
        .map(|_| Side {
            sk: CountMinSketch::<T>::with_seed(c.num_hashes, c.num_buckets, c.seed),
            table: vec![0; cells],
            truth: vec![0; domain],
            total: 0,
        })
        .collect();
    ensure!(
        sides[0].sk.num_hashes() == c.num_hashes && sides[0].sk.num_buckets() == c.num_buckets && sides[0].sk.seed() == c.seed,
        "C08.config_accessors",
        "accessors disagree with the configuration"
    );
    let mut skipped = 0u32;
    let mut collisions = false;
    let mut merges = 0;
    let mut scaled = 0;
    info.label(format!("type={}", T::NAME));
    let upd = |s: &mut Side<T>, id: usize, w: u64, bk: &[Vec<usize>]| {
        if c.strings {
            s.sk.update_with_weight(format!("key/{id}").as_str(), T::from_u64(w));
        } else {
            s.sk.update_with_weight(id as u64, T::from_u64(w));
        }
        for (row, &b) in bk[id].iter().enumerate() {
            s.table[row * nb + b] += w;
        }
        s.truth[id] += w;
        s.total += w;
    };
    for (i, st) in c.steps.iter().enumerate() {
        let ctx = format!("after step #{i} {st:?} [{}]", T::NAME);
        let j;
        match st {
            Step::Update { sk, item } => {
                j = pick_idx((*sk as u16) << 8, n_sk);
                let id = pick_idx(*item, domain);
                if sides[j].total >= T::MAXV {
                    skipped += 1;
                    continue;
                }
                if c.strings {
                    sides[j].sk.update(format!("key/{id}").as_str());
                } else {
                    sides[j].sk.update(id as u64);
                }
                let s = &mut sides[j];
                for (row, &b) in bk[id].iter().enumerate() {
                    s.table[row * nb + b] += 1;
                }
                s.truth[id] += 1;
                s.total += 1;
            }
            Step::UpdateW { sk, item, frac, big } => {
                j = pick_idx((*sk as u16) << 8, n_sk);
                let id = pick_idx(*item, domain);
                let head = T::MAXV - sides[j].total;
                if head == 0 {
                    skipped += 1;
                    continue;
                }
                let cap = if *big { head } else { head.min(50) };
                // frac = 0: a weight of zero (a no-op in the library and in the model)
                let w = if *frac == 0 { 0 } else { ((((*frac as u128) + 1) * cap as u128) >> 16).max(1) as u64 };
                upd(&mut sides[j], id, w, &bk);
            }
            Step::Burst { sk, n, seed } => {
                j = pick_idx((*sk as u16) << 8, n_sk);
                let mut sm = SplitMix(*seed);
                for _ in 0..*n {
                    if sides[j].total >= T::MAXV {
                        skipped += 1;
                        break;
                    }
                    let id = sm.below(domain as u64) as usize;
                    upd(&mut sides[j], id, 1, &bk);
                }
            }
            Step::Merge { dst, src } => {
                if n_sk < 2 {
                    continue;
                }
                j = pick_idx((*dst as u16) << 8, n_sk);
                let mut s = pick_idx((*src as u16) << 8, n_sk);
                if s == j {
                    s = (j + 1) % n_sk;
                }
                if sides[j].total as u128 + sides[s].total as u128 > T::MAXV as u128 {
                    skipped += 1;
                    continue;
                }
                let src = sides[s].sk.clone();
                let (st, tr, tot) = (sides[s].table.clone(), sides[s].truth.clone(), sides[s].total);
                sides[j].sk.merge(&src);
                for (a, b) in sides[j].table.iter_mut().zip(st) {
                    *a += b;
                }
                for (a, b) in sides[j].truth.iter_mut().zip(tr) {
                    *a += b;
                }
                sides[j].total += tot;
                merges += 1;
            }
            Step::Halve { sk } => {
                j = pick_idx((*sk as u16) << 8, n_sk);
                if !T::UNSIGNED {
                    continue;
                }
                T::sk_halve(&mut sides[j].sk);
                let s = &mut sides[j];
                for v in s.table.iter_mut() {
                    *v = T::from_u64(*v).halve_().to_u64();
                }
                for v in s.truth.iter_mut() {
                    *v = T::from_u64(*v).halve_().to_u64();
                }
                s.total = T::from_u64(s.total).halve_().to_u64();
                scaled += 1;
            }
            Step::Decay { sk, d } => {
                j = pick_idx((*sk as u16) << 8, n_sk);
                if !T::UNSIGNED {
                    continue;
                }
                let d = (*d as f64 + 1.0) / 65536.0;
                T::sk_decay(&mut sides[j].sk, d);
                let s = &mut sides[j];
                for v in s.table.iter_mut() {
                    *v = T::from_u64(*v).decay_(d).to_u64();
                }
                for v in s.truth.iter_mut() {
                    *v = T::from_u64(*v).decay_(d).to_u64();
                }
                s.total = T::from_u64(s.total).decay_(d).to_u64();
                scaled += 1;
            }
            Step::RoundTrip { sk } => {
                j = pick_idx((*sk as u16) << 8, n_sk);
                let bytes = sides[j].sk.serialize();
                let d = CountMinSketch::<T>::deserialize_with_seed(&bytes, c.seed).map_err(|e| Fail {
                    clause: "C08.roundtrip_rejected".into(),
                    detail: format!("{ctx}: {e}"),
                })?;
                sides[j].sk = d;
            }
        }
        check_side(&sides[j], c, domain, &bk, &ctx)?;
        if !collisions {
            let s = &sides[j];
            collisions = (0..domain).any(|id| {
                bk[id].iter().enumerate().map(|(row, &b)| s.table[row * nb + b]).min().unwrap() > s.truth[id]
            });
        }
    }
    info.nontrivial = c.num_hashes >= 2 && collisions;
    if merges > 0 {
        info.label("merged");
    }
    if scaled > 0 {
        info.label("halved_or_decayed");
    }
    if skipped > 0 {
        info.label("weights_capped_to_fit_type");
    }
    if sides.iter().any(|s| s.total == T::MAXV) {
        info.label("total_at_type_max");
    }
    Ok(())
}

pub fn run_case(c: &Case, info: &mut CaseInfo) -> Result<(), Fail> {
    match c.ty % 8 {
        0 => run_typed::<u8>(c, info),
        1 => run_typed::<u16>(c, info),
        2 => run_typed::<u32>(c, info),
        3 => run_typed::<u64>(c, info),
        4 => run_typed::<i8>(c, info),
        5 => run_typed::<i16>(c, info),
        6 => run_typed::<i32>(c, info),
        _ => run_typed::<i64>(c, info),
    }
}

/// Statistical clause: P(estimate > truth + relative_error * total) <= exp(-num_hashes).
fn confidence(ctx: &Ctx) -> SubReport {
    let mut rep = SubReport {
        rule: "population test: per num_hashes 1..=8, random (num_buckets 8..=256, seed, 2000-item Zipf-ish streams); 40 probed items per sketch; fraction with estimate > truth + relative_error*total_weight must be <= exp(-num_hashes) + 6 sigma; a trial is non-trivial when the sketch has collisions; distinct by (config, stream seed)".into(),
        ..Default::default()
    };
    let trials = ctx.cases(400, 6000) as usize;
    let mut table = vec![];
    for h in 1u8..=8 {
        let mut d = Draw::new(ctx.seed, ctx.prop, "confidence", h as usize);
        let mut exceed = 0u64;
        let mut probes = 0u64;
        for t in 0..trials {
            let nb = 8 + d.below(249) as u32;
            let seed = loop {
                let s = d.u64();
                if refhash::seed_hash(s) != 0 {
                    break s;
                }
            };
            let stream_seed = d.u64();
            let mut sk = CountMinSketch::<u64>::with_seed(h, nb, seed);
            let mut sm = SplitMix(stream_seed);
            let domain = 4 * nb as u64;
            let mut truth = std::collections::HashMap::new();
            let mut total = 0u64;
            for _ in 0..2000 {
                let u = sm.unit();
                let id = ((domain as f64).powf(u) - 1.0) as u64;
                let w = 1 + sm.below(5);
                sk.update_with_weight(id, w);
                *truth.entry(id).or_insert(0u64) += w;
                total += w;
            }
            let eps = sk.relative_error();
            let mut any_collision = false;
            for _ in 0..40 {
                let id = sm.below(domain);
                let t0 = truth.get(&id).copied().unwrap_or(0);
                let est = sk.estimate(id);
                probes += 1;
                if est > t0 {
                    any_collision = true;
                }
                if est as f64 > t0 as f64 + eps * total as f64 {
                    exceed += 1;
                }
            }
            rep.evaluations += 1;
            if any_collision {
                rep.nontrivial.insert(crate::kit::fnv64(&[&seed.to_le_bytes()[..], &stream_seed.to_le_bytes()[..], &[h]].concat()));
            }
            if t < 1 {
                rep.samples.push(json!({"num_hashes": h, "num_buckets": nb, "seed": seed, "stream_seed": stream_seed}));
            }
        }
        let p0 = (-(h as f64)).exp();
        let f = exceed as f64 / probes as f64;
        let limit = p0 + crate::kit::stats::binom_margin(p0, probes);
        table.push(json!({"num_hashes": h, "probes": probes, "exceed_fraction": f, "limit": limit}));
        if f > limit {
            rep.violations.push(crate::kit::report::Violation {
                sub: "confidence".into(),
                clause: "C08.confidence".into(),
                detail: format!("num_hashes {h}: {exceed}/{probes} = {f:.4} of items exceed truth + relative_error*total, limit exp(-{h}) + 6 sigma = {limit:.4}"),
                case: json!({"num_hashes": h, "seed": ctx.seed, "trials": trials}),
            });
        }
    }
    rep.extra.insert("confidence_table".into(), json!(table));
    rep
}


// ---------------------------------------------------------------------------------------------
// merge partners with different seeds: either refused (documented panic) or the guarantee holds

#[derive(Debug, Clone, Serialize, Deserialize)]
pub struct SeedPairCase {
    /// index into the table of seed pairs (pairs with EQUAL 16-bit seed hashes come first)
    pub pair: u16,
    pub num_hashes: u8,
    pub num_buckets: u32,
    pub items_a: Vec<(u16, u8)>,
    pub items_b: Vec<(u16, u8)>,
}

/// Pairs of different seeds: the first 48 share their 16-bit seed hash (found by scanning seeds 1..), the rest
/// do not. Includes the default seed 9001 with its first colliding partner.
fn seed_pairs() -> &'static Vec<(u64, u64)> {
    static PAIRS: std::sync::OnceLock<Vec<(u64, u64)>> = std::sync::OnceLock::new();
    PAIRS.get_or_init(|| {
        let mut first_with: std::collections::HashMap<u16, u64> = std::collections::HashMap::new();
        let mut out = vec![];
        let want9001 = refhash::seed_hash(9001);
        let mut s = 1u64;
        while out.len() < 48 && s < 2_000_000 {
            let h = refhash::seed_hash(s);
            if h == want9001 && s != 9001 && !out.iter().any(|p: &(u64, u64)| p.0 == 9001) {
                out.push((9001, s));
            } else if let Some(&t) = first_with.get(&h) {
                if out.len() < 47 {
                    out.push((t, s));
                }
            } else {
                first_with.insert(h, s);
            }
            s += 1;
        }
        for i in 0..16u64 {
            out.push((1000 + i, 5000 + 7 * i));
        }
        out
    })
}

fn seed_pair_case() -> impl Strategy<Value = SeedPairCase> {
    (any::<u16>(), 1u8..=8, 3u32..=64, proptest::collection::vec((any::<u16>(), 1u8..=9), 1..40), proptest::collection::vec((any::<u16>(), 1u8..=9), 1..40))
        .prop_map(|(pair, num_hashes, num_buckets, items_a, items_b)| SeedPairCase { pair, num_hashes, num_buckets, items_a, items_b })
}

fn seed_pair(c: &SeedPairCase, info: &mut CaseInfo) -> Result<(), Fail> {
    let pairs = seed_pairs();
    let (sa, sb) = pairs[pick_idx(c.pair, pairs.len())];
    let same_hash = refhash::seed_hash(sa) == refhash::seed_hash(sb);
    info.label(if same_hash { "seed_hash_equal" } else { "seed_hash_differs" });
    let mut a = CountMinSketch::<u64>::with_seed(c.num_hashes, c.num_buckets, sa);
    let mut b = CountMinSketch::<u64>::with_seed(c.num_hashes, c.num_buckets, sb);
    let mut truth: std::collections::BTreeMap<u64, u64> = Default::default();
    for (it, w) in &c.items_a {
        a.update_with_weight(*it as u64 % 64, *w as u64);
        *truth.entry(*it as u64 % 64).or_insert(0) += *w as u64;
    }
    for (it, w) in &c.items_b {
        b.update_with_weight(*it as u64 % 64, *w as u64);
        *truth.entry(*it as u64 % 64).or_insert(0) += *w as u64;
    }
    // a refused merge (the documented panic for incompatible configurations) is fine
    let merged = crate::kit::runner::guard(|| {
        let mut m = a.clone();
        m.merge(&b);
        Ok(m)
    });
    info.nontrivial = same_hash;
    match merged {
        Err(_) => {
            info.label("merge_refused");
            Ok(())
        }
        Ok(m) => {
            info.label("merge_accepted");
            let total: u64 = truth.values().sum();
            ensure!(m.total_weight() == total, "C08.merge_seeds.total_weight", "merge of seeds {sa} and {sb} accepted: total_weight {} but the exact sum is {total}", m.total_weight());
            for (it, t) in &truth {
                ensure!(
                    m.estimate(*it) >= *t,
                    "C08.merge_seeds.estimate_below_truth",
                    "merge of sketches with different seeds {sa} and {sb} (seed hashes {} and {}) was accepted, but item {it}: estimate {} < true weight {t}",
                    refhash::seed_hash(sa),
                    refhash::seed_hash(sb),
                    m.estimate(*it)
                );
            }
            Ok(())
        }
    }
}

pub fn def() -> PropDef {
    PropDef {
        id: "C08",
        assumptions: vec![
            "documented bucket rule: row seed = MurmurHash3(seed, row as u64 LE).h1, bucket = MurmurHash3(row seed, item).h1 mod num_buckets (reference hash)",
            "non-negative weights whose totals fit the counter type are constructed (never filtered); merges that would overflow are skipped and counted",
            "decay semantics: multiply by the factor and truncate toward zero, applied identically to model cells, totals and truths",
        ],
        subs: vec![
            Box::new(PropSub {
                name: "table_vs_model",
                rule: "all eight counter types, num_hashes 1..=8, num_buckets 3..=512, seeds, u64 or string items, 1..3 compatible sketches; steps = unit updates, weighted updates sized against the remaining headroom of the type (up to exactly MAX), bursts, merges, halve, decay, round-trips; after every step the serialized table is decoded by an independent decoder and compared cell by cell with the model, total_weight exact, and for every item of the probe domain estimate == min over rows >= truth and <= total. non-trivial = >= 2 rows and some collision (estimate > truth)",
                cases_quick: 40_000,
                cases_thorough: 600_000,
                max_shrink_iters: 4000,
                limit_factor: 1,
                strategy: case_strategy,
                check: run_case,
            }),
            Box::new(PropSub {
                name: "merge_of_different_seeds",
                rule: "two sketches of equal shape but DIFFERENT seeds - 48 pairs whose 16-bit seed hashes are equal (incl. the default seed 9001 and its first colliding partner) and 16 pairs whose hashes differ - filled and merged under catch_unwind: the merge is either refused (the documented panic) or the merged sketch keeps total_weight and estimate(x) >= truth for every item. non-trivial = equal seed hashes",
                cases_quick: 20_000,
                cases_thorough: 300_000,
                max_shrink_iters: 500,
                limit_factor: 1,
                strategy: seed_pair_case,
                check: seed_pair,
            }),
            Box::new(FnSub {
                name: "confidence",
                run: confidence,
                replay: |ctx: &Ctx, _case: &serde_json::Value| -> Result<(), Fail> {
                    // a statistical cell is replayed by re-running the population with the same seed
                    match confidence(ctx).violations.first() {
                        Some(v) => Err(Fail { clause: v.clause.clone(), detail: v.detail.clone() }),
                        None => Ok(()),
                    }
                },
            }),
        ],
        post: None,
    }
}
