//! C09 - Bloom filter: no false negatives; bits are exactly the reference hash positions.

use super::c16::{item_bytes, item_strategy, Item};
use super::PropDef;
use crate::kit::draw::Draw;
use crate::kit::refhash;
use crate::kit::report::{SubReport, Violation};
use crate::kit::runner::{CaseInfo, Ctx, Fail, FnSub, PropSub};
use crate::kit::{pick_idx, SplitMix};
use crate::with_item;
use datasketches::bloom::{BloomFilter, BloomFilterBuilder};
use proptest::prelude::*;
use serde::{Deserialize, Serialize};
use serde_json::json;
use std::collections::BTreeSet;

#[derive(Debug, Clone, Serialize, Deserialize)]
pub enum Step {
    Insert { f: u8, item: u16 },
    ContainsAndInsert { f: u8, item: u16 },
    Burst { f: u8, n: u16, seed: u64 },
    Union { dst: u8, src: u8 },
    Intersect { dst: u8, src: u8 },
    Invert { f: u8 },
    Reset { f: u8 },
    RoundTrip { f: u8 },
}

#[derive(Debug, Clone, Serialize, Deserialize)]
pub struct Case {
    pub num_bits: u64,
    pub num_hashes: u16,
    pub seed: u64,
    pub n_filters: u8,
    /// the item pool (several Hash shapes)
    pub pool: Vec<Item>,
    pub steps: Vec<Step>,
}

fn step_strategy() -> impl Strategy<Value = Step> {
    prop_oneof![
        12 => (any::<u8>(), any::<u16>()).prop_map(|(f, item)| Step::Insert { f, item }),
        5 => (any::<u8>(), any::<u16>()).prop_map(|(f, item)| Step::ContainsAndInsert { f, item }),
        3 => (any::<u8>(), 1u16..=2000, any::<u64>()).prop_map(|(f, n, seed)| Step::Burst { f, n, seed }),
        3 => (any::<u8>(), any::<u8>()).prop_map(|(dst, src)| Step::Union { dst, src }),
        2 => (any::<u8>(), any::<u8>()).prop_map(|(dst, src)| Step::Intersect { dst, src }),
        1 => any::<u8>().prop_map(|f| Step::Invert { f }),
        1 => any::<u8>().prop_map(|f| Step::Reset { f }),
        3 => any::<u8>().prop_map(|f| Step::RoundTrip { f }),
    ]
}

pub fn case_strategy() -> impl Strategy<Value = Case> {
    (
        prop_oneof![3 => 1u64..=300, 3 => 1u64..=65536, 1 => prop_oneof![Just(1u64), Just(63), Just(64), Just(65), Just(128), Just(65536)]],
        prop_oneof![12 => 1u16..=16, 1 => 17u16..=600],
        prop_oneof![2 => Just(9001u64), 1 => Just(0u64), 2 => any::<u64>()],
        1u8..=3,
        proptest::collection::vec(item_strategy(), 1..40),
        proptest::collection::vec(step_strategy(), 1..50),
    )
        .prop_map(|(num_bits, num_hashes, seed, n_filters, pool, steps)| Case { num_bits, num_hashes, seed, n_filters, pool, steps })
}

pub fn positions(bytes: &[u8], seed: u64, num_hashes: u16, cap: u64) -> Vec<u64> {
    let h0 = refhash::xxh64(bytes, seed);
    let h1 = refhash::xxh64(bytes, h0);
    (1..=num_hashes as u64).map(|i| (h0.wrapping_add(i.wrapping_mul(h1)) >> 1) % cap).collect()
}

/// Independent decoder of the Bloom image.
pub struct BloomImage {
    pub empty: bool,
    pub num_hashes: u16,
    pub seed: u64,
    pub num_longs: i32,
    pub bits_set: u64,
    pub words: Vec<u64>,
}
pub fn decode_image(b: &[u8]) -> Result<BloomImage, String> {
    if b.len() < 24 {
        return Err(format!("image of {} bytes", b.len()));
    }
    if b[1] != 1 || b[2] != 21 {
        return Err(format!("serVer {} family {}", b[1], b[2]));
    }
    let empty = b[3] & 4 != 0;
    let num_hashes = u16::from_le_bytes([b[4], b[5]]);
    let seed = u64::from_le_bytes(b[8..16].try_into().unwrap());
    let num_longs = i32::from_le_bytes(b[16..20].try_into().unwrap());
    let mut im = BloomImage { empty, num_hashes, seed, num_longs, bits_set: 0, words: vec![] };
    if empty {
        if b[0] != 3 || b.len() != 24 {
            return Err(format!("empty image: preLongs {} length {}", b[0], b.len()));
        }
        return Ok(im);
    }
    if b[0] != 4 {
        return Err(format!("non-empty image with preLongs {}", b[0]));
    }
    if b.len() != 32 + 8 * num_longs.max(0) as usize {
        return Err(format!("image length {} but {} words declared", b.len(), num_longs));
    }
    im.bits_set = u64::from_le_bytes(b[24..32].try_into().unwrap());
    im.words = b[32..].chunks(8).map(|c| u64::from_le_bytes(c.try_into().unwrap())).collect();
    Ok(im)
}

struct Side {
    f: BloomFilter,
    bits: Vec<u64>,
    /// pool / burst items that must be reported as contained
    must: BTreeSet<u64>,
}

fn item_of(id: u64, pool: &[Item]) -> Item {
    if (id as usize) < pool.len() {
        pool[id as usize].clone()
    } else {
        Item::U64(id)
    }
}

fn check_side(s: &Side, c: &Case, cap: u64, probes: &[u64], ctx: &str) -> Result<(), Fail> {
    ensure!(s.f.capacity() as u64 == cap, "C09.capacity", "{ctx}: capacity {} expected {}", s.f.capacity(), cap);
    let pop: u64 = s.bits.iter().map(|w| w.count_ones() as u64).sum();
    ensure!(s.f.bits_used() == pop, "C09.bits_used", "{ctx}: bits_used {} but the model array has {} bits set", s.f.bits_used(), pop);
    ensure!(s.f.is_empty() == (pop == 0), "C09.is_empty", "{ctx}: is_empty {} with {} bits", s.f.is_empty(), pop);
    ensure!(s.f.num_hashes() == c.num_hashes && s.f.seed() == c.seed, "C09.config", "{ctx}: config accessors changed");
    let img = decode_image(&s.f.serialize()).map_err(|e| Fail { clause: "C09.image_layout".into(), detail: format!("{ctx}: {e}") })?;
    ensure!(
        img.num_hashes == c.num_hashes && img.seed == c.seed && img.num_longs as u64 * 64 == cap,
        "C09.image_config",
        "{ctx}: image config ({}, {}, {})",
        img.num_hashes,
        img.seed,
        img.num_longs
    );
    ensure!(img.empty == (pop == 0), "C09.image_empty_flag", "{ctx}: empty flag {} with {} bits", img.empty, pop);
    if !img.empty {
        ensure!(img.bits_set == pop, "C09.image_bits_set", "{ctx}: image bit count {} expected {}", img.bits_set, pop);
        if img.words != s.bits {
            let i = (0..s.bits.len()).find(|&i| img.words.get(i) != s.bits.get(i)).unwrap_or(0);
            fail!(
                "C09.bits",
                "{ctx}: word {i} = {:#018x} but the reference positions give {:#018x}",
                img.words.get(i).copied().unwrap_or(0),
                s.bits[i]
            );
        }
    }
    for &id in probes {
        let it = item_of(id, &c.pool);
        let bytes = item_bytes(&it);
        let want = positions(&bytes, c.seed, c.num_hashes, cap).iter().all(|&p| s.bits[(p / 64) as usize] >> (p % 64) & 1 == 1);
        let got = with_item!(&it, |v| s.f.contains(&v));
        ensure!(got == want, "C09.contains_vs_bits", "{ctx}: contains({it:?}) = {got} but the model bits say {want}");
        if s.must.contains(&id) {
            ensure!(got, "C09.false_negative", "{ctx}: inserted item {it:?} reported as not contained");
        }
    }
    Ok(())
}

pub fn run_case(c: &Case, info: &mut CaseInfo) -> Result<(), Fail> {
    let cap = c.num_bits.div_ceil(64) * 64;
    let n = c.n_filters.max(1) as usize;
    let words = (cap / 64) as usize;
    let mut sides: Vec<Side> = (0..n)
        .map(|_| Side { f: BloomFilterBuilder::with_size(c.num_bits, c.num_hashes).seed(c.seed).build(), bits: vec![0; words], must: BTreeSet::new() })
        .collect();
    let mut probes: Vec<u64> = (0..c.pool.len() as u64).collect();
    // some never-inserted probes
    probes.extend((0..20u64).map(|i| 1_000_000 + i));
    let mut set_ops = 0;
    let mut inserted = 0u64;
    let set_bits = |s: &mut Side, id: u64, pool: &[Item]| -> bool {
        let it = item_of(id, pool);
        let bytes = item_bytes(&it);
        let mut all = true;
        for p in positions(&bytes, c.seed, c.num_hashes, cap) {
            let w = &mut s.bits[(p / 64) as usize];
            if *w >> (p % 64) & 1 == 0 {
                all = false;
            }
            *w |= 1 << (p % 64);
        }
        s.must.insert(id);
        all
    };
    for (i, st) in c.steps.iter().enumerate() {
        let ctx = format!("after step #{i} {st:?}");
        let j;
        match st {
            Step::Insert { f, item } => {
                j = pick_idx((*f as u16) << 8, n);
                let id = pick_idx(*item, c.pool.len()) as u64;
                let it = item_of(id, &c.pool);
                with_item!(&it, |v| sides[j].f.insert(v));
                set_bits(&mut sides[j], id, &c.pool);
                inserted += 1;
            }
            Step::ContainsAndInsert { f, item } => {
                j = pick_idx((*f as u16) << 8, n);
                let id = pick_idx(*item, c.pool.len()) as u64;
                let it = item_of(id, &c.pool);
                let got = with_item!(&it, |v| sides[j].f.contains_and_insert(&v));
                let want = set_bits(&mut sides[j], id, &c.pool);
                ensure!(got == want, "C09.contains_and_insert", "{ctx}: returned {got} but the model says the item was {}present", if want { "" } else { "not " });
                inserted += 1;
            }
            Step::Burst { f, n: cnt, seed } => {
                j = pick_idx((*f as u16) << 8, n);
                let mut sm = SplitMix(*seed);
                for _ in 0..*cnt {
                    let id = 2_000_000 + sm.below(1 << 40);
                    sides[j].f.insert(id);
                    set_bits(&mut sides[j], id, &c.pool);
                    if probes.len() < 200 {
                        probes.push(id);
                    }
                }
                inserted += *cnt as u64;
            }
            Step::Union { dst, src } | Step::Intersect { dst, src } => {
                if n < 2 {
                    continue;
                }
                j = pick_idx((*dst as u16) << 8, n);
                let mut s = pick_idx((*src as u16) << 8, n);
                if s == j {
                    s = (j + 1) % n;
                }
                let other = sides[s].f.clone();
                let (ob, om) = (sides[s].bits.clone(), sides[s].must.clone());
                ensure!(sides[j].f.is_compatible(&other), "C09.is_compatible", "{ctx}: filters of one configuration reported incompatible");
                if matches!(st, Step::Union { .. }) {
                    sides[j].f.union(&other);
                    for (a, b) in sides[j].bits.iter_mut().zip(ob) {
                        *a |= b;
                    }
                    sides[j].must.extend(om);
                } else {
                    sides[j].f.intersect(&other);
                    for (a, b) in sides[j].bits.iter_mut().zip(ob) {
                        *a &= b;
                    }
                    sides[j].must = sides[j].must.intersection(&om).copied().collect();
                }
                set_ops += 1;
            }
            Step::Invert { f } => {
                j = pick_idx((*f as u16) << 8, n);
                sides[j].f.invert();
                for w in sides[j].bits.iter_mut() {
                    *w = !*w;
                }
                sides[j].must.clear();
                set_ops += 1;
            }
            Step::Reset { f } => {
                j = pick_idx((*f as u16) << 8, n);
                sides[j].f.reset();
                sides[j].bits.fill(0);
                sides[j].must.clear();
            }
            Step::RoundTrip { f } => {
                j = pick_idx((*f as u16) << 8, n);
                let bytes = sides[j].f.serialize();
                let d = BloomFilter::deserialize(&bytes).map_err(|e| Fail { clause: "C09.roundtrip_rejected".into(), detail: format!("{ctx}: {e}") })?;
                sides[j].f = d;
            }
        }
        check_side(&sides[j], c, cap, &probes, &ctx)?;
    }
    info.nontrivial = inserted > 0 && (cap != cap.next_power_of_two() || set_ops > 0);
    if cap != cap.next_power_of_two() {
        info.label("capacity_not_power_of_two");
    }
    if c.num_bits % 64 != 0 {
        info.label("bits_not_multiple_of_64");
    }
    if set_ops > 0 {
        info.label("set_operation");
    }
    Ok(())
}

fn fpp(ctx: &Ctx) -> SubReport {
    let mut rep = SubReport {
        rule: "population test: with_accuracy(n, p), n in 100..=5000, p in {0.2, 0.1, 0.05, 0.01, 0.001}, loaded with n distinct keys, probed with 20000 fresh keys; measured fpp <= 1.25 p + 6 sigma (upper side only); no false negative among the n inserted; every cell is non-trivial, distinct by (n, p, seeds)".into(),
        ..Default::default()
    };
    let cells = ctx.cases(200, 3000) as usize;
    let mut d = Draw::new(ctx.seed, ctx.prop, "fpp", 0);
    let ps = [0.2, 0.1, 0.05, 0.01, 0.001];
    let mut worst = 0.0f64;
    for cell in 0..cells {
        let n = 100 + d.below(4901);
        let p = ps[d.below(5) as usize];
        let seed = d.u64();
        let stream = d.u64();
        let mut f = BloomFilterBuilder::with_accuracy(n, p).seed(seed).build();
        let mut sm = SplitMix(stream);
        let mut keys = Vec::with_capacity(n as usize);
        for _ in 0..n {
            let k = sm.next() | 1; // odd keys inserted
            f.insert(k);
            keys.push(k);
        }
        for &k in keys.iter().take(500) {
            if !f.contains(&k) {
                rep.violations.push(Violation {
                    sub: "fpp".into(),
                    clause: "C09.false_negative".into(),
                    detail: format!("with_accuracy({n}, {p}) seed {seed}: inserted key {k} not contained"),
                    case: json!({"n": n, "p": p, "seed": seed, "stream": stream}),
                });
                break;
            }
        }
        let probes = 20000u64;
        let mut fp = 0u64;
        for _ in 0..probes {
            let k = sm.next() & !1; // even keys never inserted
            if f.contains(&k) {
                fp += 1;
            }
        }
        let rate = fp as f64 / probes as f64;
        let limit = 1.25 * p + crate::kit::stats::binom_margin(1.25 * p, probes);
        worst = worst.max(rate / p);
        rep.evaluations += 1;
        rep.nontrivial.insert(crate::kit::fnv64(&[&n.to_le_bytes()[..], &seed.to_le_bytes()[..], &stream.to_le_bytes()[..]].concat()));
        if cell < 3 {
            rep.samples.push(json!({"n": n, "p": p, "seed": seed, "measured_fpp": rate, "limit": limit, "num_hashes": f.num_hashes(), "capacity": f.capacity()}));
        }
        if rate > limit {
            rep.violations.push(Violation {
                sub: "fpp".into(),
                clause: "C09.fpp".into(),
                detail: format!("with_accuracy({n}, {p}) seed {seed}: measured fpp {rate:.5} > 1.25 p + 6 sigma = {limit:.5}"),
                case: json!({"n": n, "p": p, "seed": seed, "stream": stream}),
            });
        }
    }
    rep.extra.insert("worst_measured_over_target".into(), json!(worst));
    let mut seen = BTreeSet::new();
    rep.violations.retain(|v| seen.insert(v.clause.clone()));
    rep
}


// ---------------------------------------------------------------------------------------------
// set operations between filters that differ in one parameter: refused, or no inserted item is lost

#[derive(Debug, Clone, Serialize, Deserialize)]
pub struct MismatchCase {
    pub num_bits: u64,
    pub num_hashes: u16,
    pub seed: u64,
    /// which parameter of the second filter differs: 0 seed, 1 num_hashes, 2 size in words, 3 nothing (control)
    pub differ: u8,
    pub delta: u8,
    pub items_a: Vec<u64>,
    pub items_b: Vec<u64>,
    pub intersect: bool,
}

fn mismatch_case() -> impl Strategy<Value = MismatchCase> {
    (64u64..=4096, 1u16..=12, any::<u64>(), 0u8..4, 1u8..=3, proptest::collection::vec(any::<u64>(), 1..30), proptest::collection::vec(any::<u64>(), 1..30), proptest::bool::weighted(0.3))
        .prop_map(|(num_bits, num_hashes, seed, differ, delta, items_a, items_b, intersect)| MismatchCase { num_bits, num_hashes, seed, differ, delta, items_a, items_b, intersect })
}

fn mismatch(c: &MismatchCase, info: &mut CaseInfo) -> Result<(), Fail> {
    let mut a = BloomFilterBuilder::with_size(c.num_bits, c.num_hashes).seed(c.seed).build();
    let (bits_b, hashes_b, seed_b) = match c.differ {
        0 => (c.num_bits, c.num_hashes, c.seed.wrapping_add(c.delta as u64)),
        1 => (c.num_bits, c.num_hashes + c.delta as u16, c.seed),
        2 => (c.num_bits + 64 * c.delta as u64, c.num_hashes, c.seed),
        _ => (c.num_bits, c.num_hashes, c.seed),
    };
    let mut b = BloomFilterBuilder::with_size(bits_b, hashes_b).seed(seed_b).build();
    for x in &c.items_a {
        a.insert(*x);
    }
    for x in &c.items_b {
        b.insert(*x);
    }
    let what = ["seed", "num_hashes", "size", "nothing"][c.differ as usize % 4];
    info.label(format!("differs_in={what}"));
    info.nontrivial = c.differ < 3;
    let compatible = a.is_compatible(&b);
    ensure!(compatible == (c.differ >= 3), "C09.is_compatible", "filters differing in {what}: is_compatible() = {compatible}");
    let r = crate::kit::runner::guard(|| {
        let mut m = a.clone();
        if c.intersect {
            m.intersect(&b);
        } else {
            m.union(&b);
        }
        Ok(m)
    });
    match r {
        Err(_) => {
            ensure!(c.differ < 3, "C09.compatible_refused", "a set operation between compatible filters panicked");
            info.label("refused");
        }
        Ok(m) => {
            info.label("accepted");
            if !c.intersect {
                for x in c.items_a.iter().chain(c.items_b.iter()) {
                    ensure!(m.contains(x), "C09.union_false_negative", "union of filters differing in {what} was accepted, but item {x} inserted into an operand is not contained");
                }
            } else {
                let both: BTreeSet<u64> = c.items_a.iter().copied().filter(|x| c.items_b.contains(x)).collect();
                for x in &both {
                    ensure!(m.contains(x), "C09.intersect_false_negative", "intersection of filters differing in {what} was accepted, but item {x} inserted into both operands is not contained");
                }
            }
        }
    }
    Ok(())
}


// ---------------------------------------------------------------------------------------------
// filters beyond 2^32 bits (documented maximum about 2^37): positions and counts need 64-bit arithmetic

#[derive(Debug, Clone, Serialize, Deserialize)]
pub struct HugeCase {
    /// capacity = 2^32 + 64 * extra_words (..= 2^34)
    pub extra_words: u32,
    pub num_hashes: u16,
    pub seed: u64,
    pub items: Vec<u64>,
    pub pseed: u64,
}

fn huge_case() -> impl Strategy<Value = HugeCase> {
    (prop_oneof![Just(1u32), Just(1 << 26), 1u32..=(3 << 26)], 1u16..=6, any::<u64>(), proptest::collection::vec(any::<u64>(), 1..40), any::<u64>())
        .prop_map(|(extra_words, num_hashes, seed, items, pseed)| HugeCase { extra_words, num_hashes, seed, items, pseed })
}

fn huge(c: &HugeCase, info: &mut CaseInfo) -> Result<(), Fail> {
    let bits = (1u64 << 32) + 64 * c.extra_words as u64;
    // the bit array is allocated zeroed (lazily by the OS): only the touched pages become resident
    let mut f = BloomFilterBuilder::with_size(bits, c.num_hashes).seed(c.seed).build();
    let cap = f.capacity() as u64;
    ensure!(cap == bits, "C09.capacity", "with_size({bits}): capacity {cap}");
    let mut model: BTreeSet<u64> = BTreeSet::new();
    let mut high = false;
    for x in &c.items {
        f.insert(*x);
        for p in positions(&x.to_le_bytes(), c.seed, c.num_hashes, cap) {
            high |= p >= 1 << 32;
            model.insert(p);
        }
    }
    let ctx = format!("filter of 2^32 + {} bits, {} hashes, {} items", 64 * c.extra_words as u64, c.num_hashes, c.items.len());
    ensure!(f.bits_used() == model.len() as u64, "C09.bits_used", "{ctx}: bits_used {} but the reference positions are {} distinct bits", f.bits_used(), model.len());
    for x in &c.items {
        ensure!(f.contains(x), "C09.false_negative", "{ctx}: inserted item {x} not contained");
    }
    let mut sm = SplitMix(c.pseed);
    for _ in 0..2000 {
        let y = sm.next();
        let want = positions(&y.to_le_bytes(), c.seed, c.num_hashes, cap).iter().all(|p| model.contains(p));
        ensure!(f.contains(&y) == want, "C09.contains", "{ctx}: contains({y}) = {} but the reference positions say {want}", f.contains(&y));
    }
    // once per run the whole bit array (512 MiB and more) is read back through serialize() and compared with the
    // model bit by bit: a position folded to 32 bits is consistent between insert and contains, only the array shows it
    static ARRAY_DONE: std::sync::atomic::AtomicBool = std::sync::atomic::AtomicBool::new(false);
    if high && !ARRAY_DONE.swap(true, std::sync::atomic::Ordering::SeqCst) {
        let img = f.serialize();
        let mut got: BTreeSet<u64> = BTreeSet::new();
        for (w, chunk) in img[32..].chunks_exact(8).enumerate() {
            let mut word = u64::from_le_bytes(chunk.try_into().unwrap());
            while word != 0 {
                let b = word.trailing_zeros() as u64;
                got.insert(w as u64 * 64 + b);
                word &= word - 1;
            }
        }
        drop(img);
        ensure!(got == model, "C09.bits", "{ctx}: the bit array holds {} set bits {:?}.., the reference positions are {:?}..", got.len(), got.iter().take(4).collect::<Vec<_>>(), model.iter().take(4).collect::<Vec<_>>());
        info.label("whole_array_compared");
    }
    info.label(if high { "position>=2^32" } else { "positions<2^32" });
    info.nontrivial = high;
    // set-operation recounts beyond 2^32 set bits: thorough tier only (touches 1 GiB)
    static HEAVY_DONE: std::sync::atomic::AtomicBool = std::sync::atomic::AtomicBool::new(false);
    if std::env::var("VERIF_TIER_HINT").map(|t| t == "thorough").unwrap_or(false) && !HEAVY_DONE.swap(true, std::sync::atomic::Ordering::SeqCst) {
        let n = (1u64 << 32) + 64;
        let mut a = BloomFilterBuilder::with_size(n, 1).seed(c.seed).build();
        a.invert();
        ensure!(a.bits_used() == n, "C09.bits_used", "inverted empty filter of 2^32 + 64 bits: bits_used {}", a.bits_used());
        let b = BloomFilterBuilder::with_size(n, 1).seed(c.seed).build();
        let mut u = a.clone();
        u.union(&b);
        ensure!(u.bits_used() == n, "C09.bits_used", "union of a full and an empty filter of 2^32 + 64 bits: bits_used {} expected {n}", u.bits_used());
        let mut i = a.clone();
        i.intersect(&a);
        ensure!(i.bits_used() == n, "C09.bits_used", "intersection of a full filter of 2^32 + 64 bits with itself: bits_used {} expected {n}", i.bits_used());
        info.label("heavy_set_operations");
    }
    Ok(())
}

pub fn def() -> PropDef {
    PropDef {
        id: "C09",
        assumptions: vec![
            "bit positions: ((h0 + i*h1) >> 1) mod capacity, i = 1..=num_hashes, h0 = XXH64(item, seed), h1 = XXH64(item, h0) (reference XXH64)",
            "image layout of the Bloom family as transcribed in props/c09.rs::decode_image",
        ],
        subs: vec![
            Box::new(PropSub {
                name: "bits_vs_model",
                rule: "sizes 1..=65536 bits incl. non-multiples of 64, num_hashes 1..=16 (one case in 13: 17..=600), seeds, 1..3 compatible filters, item pool of mixed Hash shapes (every integer width incl. 128-bit, bool, char, str, bytes, Vec<u64>, Option, tuples, chunked-write); steps = insert, contains_and_insert, bursts, union, intersect, invert, reset, round-trip; after every step the decoded image bits == model bits, bits_used == popcount, contains == model for inserted and never-inserted probes, inserted items (tracked through union / intersect) contained. non-trivial = something inserted and (capacity not a power of two or a set operation used)",
                cases_quick: 30_000,
                cases_thorough: 500_000,
                max_shrink_iters: 4000,
                limit_factor: 1,
                strategy: case_strategy,
                check: run_case,
            }),
            Box::new(PropSub {
                name: "set_operations_between_mismatched_filters",
                rule: "two filters that differ in exactly one of seed / num_hashes / size (or in nothing: control), filled, then union or intersect under catch_unwind: is_compatible() must say so, and the operation is either refused (the documented panic) or loses no item inserted into an operand (into both, for intersect). non-trivial = the filters differ",
                cases_quick: 20_000,
                cases_thorough: 200_000,
                max_shrink_iters: 400,
                limit_factor: 1,
                strategy: mismatch_case,
                check: mismatch,
            }),
            Box::new(PropSub {
                name: "filters_beyond_2^32_bits",
                rule: "filters of 2^32 + 64 .. 2^34 bits (lazily zeroed memory, only touched pages resident), 1..6 hashes, up to 40 items: bits_used == number of distinct reference positions, inserted items contained, 2000 fresh probes answer exactly as the reference positions say; once per run the whole bit array is read back through serialize() and compared bit by bit; thorough tier: once per run invert / union / intersect on filters of 2^32 + 64 bits, whose counts exceed 2^32. non-trivial = some reference position >= 2^32",
                cases_quick: 40,
                cases_thorough: 400,
                max_shrink_iters: 4,
                limit_factor: 2,
                strategy: huge_case,
                check: huge,
            }),
            Box::new(FnSub {
                name: "fpp",
                run: fpp,
                replay: |ctx: &Ctx, _case: &serde_json::Value| -> Result<(), Fail> {
                    match fpp(ctx).violations.first() {
                        Some(v) => Err(Fail { clause: v.clause.clone(), detail: v.detail.clone() }),
                        None => Ok(()),
                    }
                },
            }),
        ],
        post: None,
    }
}
