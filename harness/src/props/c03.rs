//! C03 - HLL union equals the sketch of the combined streams, whatever the input shapes.

use super::c02::{tname, value_strategy, TYPES};
use super::PropDef;
use crate::kit::refhash;
use crate::kit::runner::{CaseInfo, Fail, PropSub};
use crate::kit::{pick_idx, SplitMix};
use crate::spec::hll as spec;
use datasketches::common::NumStdDev;
use datasketches::hll::{HllSketch, HllType, HllUnion};
use proptest::prelude::*;
use serde::{Deserialize, Serialize};
use std::collections::BTreeSet;

#[derive(Debug, Clone, Serialize, Deserialize)]
pub enum Content {
    Empty,
    /// n hashed keys from a seed
    Keys { n: u32, seed: u64 },
    /// crafted coupons (slot, value)
    Coupons(Vec<(u32, u8)>),
    /// one coupon per register (base + geometric) followed by n hashed keys
    Sweep { base: u8, seed: u64 },
    /// every register holds exactly `val` (Hll4: cur_min = val, no register above it)
    Fill { val: u8 },
}

#[derive(Debug, Clone, Serialize, Deserialize)]
pub enum Route {
    Fresh,
    /// serialize + deserialize with the crate
    RoundTrip,
    /// image written by the independent spec encoder (compact or updatable form); for arrays optionally with
    /// the out-of-order flag and a HIP field of 0 (what Java/C++ union results carry)
    Spec { ooo: bool, stale_hip: bool, compact: bool },
    /// the result of an earlier single-input union, requested as the given type
    ViaUnion(u8),
}

#[derive(Debug, Clone, Serialize, Deserialize)]
pub struct InputSpec {
    pub lg_k: u8,
    pub ty: u8,
    pub content: Content,
    pub route: Route,
}

#[derive(Debug, Clone, Serialize, Deserialize)]
pub enum Step {
    Feed(u16),
    UpdateValue(u64),
    Reset,
    ToSketch(u8),
}

#[derive(Debug, Clone, Serialize, Deserialize)]
pub struct Case {
    pub lg_max_k: u8,
    pub inputs: Vec<InputSpec>,
    pub steps: Vec<Step>,
    pub perm_seed: u64,
}

fn content_strategy() -> impl Strategy<Value = Content> {
    prop_oneof![
        1 => Just(Content::Empty),
        // small: list / set
        4 => (1u32..=40, any::<u64>()).prop_map(|(n, seed)| Content::Keys { n, seed }),
        // medium / large: set or array depending on lg_k
        5 => (40u32..=40_000, any::<u64>()).prop_map(|(n, seed)| Content::Keys { n, seed }),
        3 => proptest::collection::vec((0u32..(1 << 26), value_strategy()), 1..60).prop_map(Content::Coupons),
        2 => (1u8..=40, any::<u64>()).prop_map(|(base, seed)| Content::Sweep { base, seed }),
        1 => (1u8..=63).prop_map(|val| Content::Fill { val }),
    ]
}

fn route_strategy() -> impl Strategy<Value = Route> {
    prop_oneof![
        4 => Just(Route::Fresh),
        2 => Just(Route::RoundTrip),
        4 => (any::<bool>(), any::<bool>(), any::<bool>()).prop_map(|(ooo, stale_hip, compact)| Route::Spec { ooo, stale_hip, compact }),
        2 => (0u8..3).prop_map(Route::ViaUnion),
    ]
}

fn input_strategy() -> impl Strategy<Value = InputSpec> {
    (4u8..=14, 0u8..3, content_strategy(), route_strategy())
        .prop_map(|(lg_k, ty, content, route)| InputSpec { lg_k, ty, content, route })
}

fn step_strategy() -> impl Strategy<Value = Step> {
    prop_oneof![
        10 => any::<u16>().prop_map(Step::Feed),
        2 => any::<u64>().prop_map(Step::UpdateValue),
        1 => Just(Step::Reset),
        3 => (0u8..3).prop_map(Step::ToSketch),
    ]
}

pub fn case_strategy() -> impl Strategy<Value = Case> {
    (
        4u8..=14,
        proptest::collection::vec(input_strategy(), 1..=6),
        proptest::collection::vec(step_strategy(), 1..14),
        any::<u64>(),
    )
        .prop_map(|(lg_max_k, inputs, steps, perm_seed)| Case { lg_max_k, inputs, steps, perm_seed })
}

pub fn ty_of(t: u8) -> HllType {
    TYPES[t as usize % 3]
}

pub fn content_coupons(c: &Content, lg_k: u8) -> Vec<u32> {
    let mut out = vec![];
    match c {
        Content::Empty => {}
        Content::Keys { n, seed } => {
            let mut sm = SplitMix(*seed);
            for _ in 0..*n {
                out.push(refhash::hll_coupon(&sm.next().to_le_bytes()));
            }
        }
        Content::Coupons(v) => {
            for &(slot, val) in v {
                out.push(((val as u32) << 26) | slot);
            }
        }
        Content::Sweep { base, seed } => {
            let mut sm = SplitMix(*seed);
            for s in 0..(1u32 << lg_k) {
                let v = (*base as u32 + sm.next().leading_zeros()).min(63);
                out.push((v << 26) | s);
            }
        }
        Content::Fill { val } => {
            for s in 0..(1u32 << lg_k) {
                out.push(((*val as u32).clamp(1, 63) << 26) | s);
            }
        }
    }
    out
}

/// What an input contributes, abstractly.
#[derive(Clone, Debug)]
pub enum Abstract {
    Sparse(BTreeSet<u32>),
    Array { lg_k: u8, regs: Vec<u8> },
}

pub struct Built {
    pub sk: HllSketch,
    pub abs: Abstract,
    pub label: String,
}

pub fn regs_of(lg_k: u8, coupons: &[u32]) -> Vec<u8> {
    let mut regs = vec![0u8; 1 << lg_k];
    let mask = (1usize << lg_k) - 1;
    for &c in coupons {
        let s = (c & 0x3ff_ffff) as usize & mask;
        let v = (c >> 26) as u8;
        if v > regs[s] {
            regs[s] = v;
        }
    }
    regs
}

pub fn build_input(spec_in: &InputSpec) -> Result<Built, Fail> {
    let ty = ty_of(spec_in.ty);
    let lg_k = spec_in.lg_k;
    let coupons = content_coupons(&spec_in.content, lg_k);
    let mut sk = HllSketch::new(lg_k, ty);
    match &spec_in.content {
        Content::Keys { n, seed } => {
            let mut sm = SplitMix(*seed);
            for _ in 0..*n {
                sk.update(sm.next());
            }
        }
        _ => {
            for &c in &coupons {
                sk.verif_update_with_coupon(c);
            }
        }
    }
    let st = sk.verif_state();
    let distinct: BTreeSet<u32> = coupons.iter().copied().collect();
    let abs = if st.mode == 2 {
        Abstract::Array { lg_k, regs: regs_of(lg_k, &coupons) }
    } else {
        Abstract::Sparse(distinct.clone())
    };
    let mode_name = ["list", "set", "array"][st.mode as usize];
    let (sk2, route_name) = match &spec_in.route {
        Route::Fresh => (sk, "fresh".to_string()),
        Route::RoundTrip => {
            let bytes = sk.serialize();
            let d = HllSketch::deserialize(&bytes).map_err(|e| Fail {
                clause: "C03.input.roundtrip_rejected".into(),
                detail: format!("crate rejects its own image: {e}"),
            })?;
            (d, "roundtrip".to_string())
        }
        Route::Spec { ooo, stale_hip, compact } => {
            let tgt = spec_in.ty % 3;
            let bytes = match &abs {
                Abstract::Array { regs, .. } => {
                    // in-order images must carry the sketch's own HIP value
                    let hip = if *ooo {
                        if *stale_hip { 0.0 } else { sk.estimate() }
                    } else {
                        st.hip_accum
                    };
                    spec::encode_array(lg_k, tgt, regs, hip, &spec::EncOpts { compact: *compact, ooo: *ooo, empty_flag: true })
                }
                Abstract::Sparse(set) => {
                    let v: Vec<u32> = set.iter().copied().collect();
                    if st.mode == 0 {
                        spec::encode_list(lg_k, tgt, &v, &spec::EncOpts { compact: *compact, ooo: false, empty_flag: true })
                    } else {
                        spec::encode_set(lg_k, tgt, &v, st.lg_arr as u8, &spec::EncOpts { compact: *compact, ooo: false, empty_flag: true })
                    }
                }
            };
            let d = HllSketch::deserialize(&bytes).map_err(|e| Fail {
                clause: "C03.input.spec_image_rejected".into(),
                detail: format!("valid spec-encoded image rejected: {e}"),
            })?;
            let nm = if matches!(abs, Abstract::Array { .. }) && *ooo { "spec-ooo" } else { "spec" };
            (d, nm.to_string())
        }
        Route::ViaUnion(t) => {
            let mut u = HllUnion::new(lg_k);
            u.update(&sk);
            (u.to_sketch(ty_of(*t)), "via-union".to_string())
        }
    };
    Ok(Built { sk: sk2, abs, label: format!("{mode_name}/{route_name}") })
}

/// Expected abstract result of everything fed since the last reset.
pub struct Expect {
    pub lg_k: u8,
    pub regs: Vec<u8>,
    pub all_sparse: bool,
    pub coupons: BTreeSet<u32>,
    pub nonempty: bool,
}

pub fn expect(lg_max_k: u8, fed: &[Abstract]) -> Expect {
    let mut lg = lg_max_k;
    let mut all_sparse = true;
    for a in fed {
        if let Abstract::Array { lg_k, .. } = a {
            lg = lg.min(*lg_k);
            all_sparse = false;
        }
    }
    let mask = (1usize << lg) - 1;
    let mut regs = vec![0u8; 1 << lg];
    let mut coupons = BTreeSet::new();
    let mut nonempty = false;
    for a in fed {
        match a {
            Abstract::Sparse(set) => {
                for &c in set {
                    nonempty = true;
                    let s = (c & 0x3ff_ffff) as usize & mask;
                    let v = (c >> 26) as u8;
                    if v > regs[s] {
                        regs[s] = v;
                    }
                    coupons.insert(c);
                }
            }
            Abstract::Array { regs: r, .. } => {
                nonempty = true;
                for (i, &v) in r.iter().enumerate() {
                    if v > regs[i & mask] {
                        regs[i & mask] = v;
                    }
                }
            }
        }
    }
    Expect { lg_k: lg, regs, all_sparse, coupons, nonempty }
}

fn rel_eq(a: f64, b: f64) -> bool {
    a == b || (a - b).abs() <= 1e-9 * a.abs().max(b.abs())
}

fn reads_u(u: &HllUnion) -> [f64; 7] {
    [
        u.estimate(),
        u.lower_bound(NumStdDev::One),
        u.lower_bound(NumStdDev::Two),
        u.lower_bound(NumStdDev::Three),
        u.upper_bound(NumStdDev::One),
        u.upper_bound(NumStdDev::Two),
        u.upper_bound(NumStdDev::Three),
    ]
}
fn reads_s(s: &HllSketch) -> [f64; 7] {
    [
        s.estimate(),
        s.lower_bound(NumStdDev::One),
        s.lower_bound(NumStdDev::Two),
        s.lower_bound(NumStdDev::Three),
        s.upper_bound(NumStdDev::One),
        s.upper_bound(NumStdDev::Two),
        s.upper_bound(NumStdDev::Three),
    ]
}

/// Compare a result sketch with the expectation (abstract state only).
pub fn check_result(sk: &HllSketch, e: &Expect, ctx: &str) -> Result<(), Fail> {
    let st = sk.verif_state();
    if st.mode < 2 {
        ensure!(
            e.all_sparse,
            "C03.result.sparse_after_array_input",
            "{ctx}: result is in list/set mode although an array-mode input was fed"
        );
        let got: BTreeSet<u32> = st.coupon_slots.iter().copied().filter(|&c| c != 0).collect();
        ensure!(
            got == e.coupons,
            "C03.result.coupons",
            "{ctx}: result holds {} coupons, expected union has {}; missing {:x?} extra {:x?}",
            got.len(),
            e.coupons.len(),
            e.coupons.difference(&got).take(4).collect::<Vec<_>>(),
            got.difference(&e.coupons).take(4).collect::<Vec<_>>()
        );
        ensure!(
            st.coupon_count == got.len(),
            "C03.result.coupon_count",
            "{ctx}: container count {} but {} coupons",
            st.coupon_count,
            got.len()
        );
    } else {
        ensure!(
            sk.lg_config_k() == e.lg_k,
            "C03.result.lg_k",
            "{ctx}: result lg_k {} expected {}",
            sk.lg_config_k(),
            e.lg_k
        );
        if st.registers != e.regs {
            let i = (0..e.regs.len()).find(|&i| st.registers.get(i) != e.regs.get(i)).unwrap_or(0);
            fail!(
                "C03.result.registers",
                "{ctx}: register[{i}] = {:?} expected {} (lg_k {})",
                st.registers.get(i),
                e.regs[i],
                e.lg_k
            );
        }
        let (a, b) = spec::kxq_of(&e.regs);
        ensure!(
            rel_eq(st.kxq0, a) && (st.kxq1 - b).abs() <= 1e-9 * b + 1e-300,
            "C03.result.kxq",
            "{ctx}: kxq ({}, {}) recomputed ({a}, {b})",
            st.kxq0,
            st.kxq1
        );
        let z = e.regs.iter().filter(|&&r| r == 0).count() as u32;
        if sk.target_type() != HllType::Hll4 {
            ensure!(st.num_at_cur_min == z, "C03.result.num_zeros", "{ctx}: num_zeros {} expected {z}", st.num_at_cur_min);
        }
    }
    Ok(())
}

/// Once per run: a union at large k (lg_k 19..=21, far beyond the 4..=14 of the generated inputs): two array-mode
/// inputs of different target types, compared register by register with a single sketch fed both streams; estimate and
/// bounds must not depend on the target type asked from to_sketch.
fn big_union_once(seed: u64) -> Result<(), Fail> {
    for (lg_k, ta, tb) in [(19u8, HllType::Hll6, HllType::Hll4), (20, HllType::Hll8, HllType::Hll6), (21, HllType::Hll4, HllType::Hll8)] {
        let k = 1u64 << lg_k;
        let n = k * 6 / 10;
        let (mut a, mut b, mut all) = (HllSketch::new(lg_k, ta), HllSketch::new(lg_k, tb), HllSketch::new(lg_k, HllType::Hll8));
        let mut sm = SplitMix(seed ^ lg_k as u64);
        for i in 0..2 * n {
            let key = sm.next();
            if i % 2 == 0 {
                a.update(key);
            } else {
                b.update(key);
            }
            all.update(key);
        }
        let mut u = HllUnion::new(lg_k);
        u.update(&a);
        u.update(&b);
        let ctx = format!("union of two array-mode inputs at lg_k {lg_k} ({n} items each)");
        let r8 = u.to_sketch(HllType::Hll8);
        ensure!(r8.verif_state().registers == all.verif_state().registers, "C03.result.registers", "{ctx}: registers differ from a single sketch fed both streams");
        let reads = |s: &HllSketch| (s.estimate().to_bits(), s.lower_bound(NumStdDev::Two).to_bits(), s.upper_bound(NumStdDev::Two).to_bits());
        let (r4, r6) = (u.to_sketch(HllType::Hll4), u.to_sketch(HllType::Hll6));
        ensure!(reads(&r8) == reads(&r4) && reads(&r8) == reads(&r6), "C03.result.type_dependent", "{ctx}: to_sketch estimates differ by target type: Hll8 {} Hll6 {} Hll4 {}", r8.estimate(), r6.estimate(), r4.estimate());
        let truth = 2.0 * n as f64;
        ensure!((r8.estimate() / truth - 1.0).abs() < 0.02, "C03.result.estimate", "{ctx}: estimate {} for {truth} distinct items", r8.estimate());
        ensure!((u.estimate() - r8.estimate()).abs() <= 1e-9 * truth, "C03.result.union_estimate", "{ctx}: union estimate {} vs result {}", u.estimate(), r8.estimate());
    }
    Ok(())
}

pub fn run_case(c: &Case, info: &mut CaseInfo) -> Result<(), Fail> {
    static BIG_DONE: std::sync::atomic::AtomicBool = std::sync::atomic::AtomicBool::new(false);
    if !BIG_DONE.swap(true, std::sync::atomic::Ordering::SeqCst) {
        big_union_once(c.lg_max_k as u64 + 77)?;
        info.label("big_union_lg19_21");
    }
    let mut built = vec![];
    for i in &c.inputs {
        built.push(build_input(i)?);
    }
    let mut u = HllUnion::new(c.lg_max_k);
    let mut fed: Vec<Abstract> = vec![];
    let mut fed_idx: Vec<usize> = vec![];
    let mut nontrivial_inputs: BTreeSet<String> = BTreeSet::new();
    let mut lgs: BTreeSet<u8> = BTreeSet::new();
    let mut any_array = false;

    let n_steps = c.steps.len();
    for (si, step) in c.steps.iter().enumerate() {
        let ctx = format!("after step #{si} {step:?}");
        match step {
            Step::Feed(i) => {
                let j = pick_idx(*i, built.len());
                u.update(&built[j].sk);
                fed.push(built[j].abs.clone());
                fed_idx.push(j);
                info.label(format!("input={}", built[j].label));
                let nonempty = match &built[j].abs {
                    Abstract::Sparse(s) => !s.is_empty(),
                    Abstract::Array { .. } => true,
                };
                if nonempty {
                    nontrivial_inputs.insert(built[j].label.clone());
                    lgs.insert(c.inputs[j].lg_k);
                    any_array |= matches!(built[j].abs, Abstract::Array { .. });
                }
            }
            Step::UpdateValue(k) => {
                u.update_value(*k);
                let mut s = BTreeSet::new();
                s.insert(refhash::hll_coupon(&k.to_le_bytes()));
                fed.push(Abstract::Sparse(s));
                fed_idx.push(usize::MAX);
            }
            Step::Reset => {
                u.reset();
                fed.clear();
                fed_idx.clear();
            }
            Step::ToSketch(_) => {}
        }
        let e = expect(c.lg_max_k, &fed);
        // the union's own view
        let own = u.to_sketch(HllType::Hll8);
        check_result(&own, &e, &format!("{ctx} [union gadget]"))?;
        ensure!(u.is_empty() == !e.nonempty, "C03.is_empty", "{ctx}: union.is_empty() = {}", u.is_empty());
        let ru = reads_u(&u);
        ensure!(ru.iter().all(|x| x.is_finite() && *x >= 0.0), "C03.bounds.finite", "{ctx}: union readings {ru:?}");
        if e.nonempty {
            ensure!(ru[0] > 0.0, "C03.estimate_zero", "{ctx}: union of non-empty inputs estimates {}", ru[0]);
        } else {
            ensure!(ru[0] == 0.0, "C03.estimate_nonzero_when_empty", "{ctx}: empty union estimates {}", ru[0]);
        }
        ensure!(
            ru[3] <= ru[2] && ru[2] <= ru[1] && ru[1] <= ru[0] && ru[0] <= ru[4] && ru[4] <= ru[5] && ru[5] <= ru[6],
            "C03.bounds.order",
            "{ctx}: union (est, lb1..3, ub1..3) = {ru:?}"
        );
        // to_sketch for every type (always after an explicit ToSketch step, and at the end)
        if matches!(step, Step::ToSketch(_)) || si + 1 == n_steps {
            let before = u.to_sketch(HllType::Hll8).verif_state();
            for &t in TYPES.iter() {
                let r = u.to_sketch(t);
                ensure!(r.target_type() == t, "C03.to_sketch.type", "{ctx}: asked {} got {:?}", tname(t), r.target_type());
                check_result(&r, &e, &format!("{ctx} [to_sketch({})]", tname(t)))?;
                let rs = reads_s(&r);
                for q in 0..7 {
                    ensure!(
                        rel_eq(rs[q], ru[q]),
                        "C03.to_sketch.estimate_depends_on_type",
                        "{ctx}: to_sketch({}) (est, lb1..3, ub1..3) = {rs:?} but the union reports {ru:?}",
                        tname(t)
                    );
                }
            }
            let after = u.to_sketch(HllType::Hll8).verif_state();
            ensure!(before == after, "C03.to_sketch.mutates_union", "{ctx}: to_sketch changed the union's state");
        }
    }

    // metamorphic: same multiset, permuted order, with repetitions
    if !fed_idx.is_empty() {
        let mut order: Vec<usize> = (0..fed_idx.len()).collect();
        let mut sm = SplitMix(c.perm_seed);
        let reps = 1 + sm.below(3) as usize;
        for _ in 0..reps {
            order.push(sm.below(fed_idx.len() as u64) as usize);
        }
        for i in (1..order.len()).rev() {
            let j = sm.below(i as u64 + 1) as usize;
            order.swap(i, j);
        }
        let mut u2 = HllUnion::new(c.lg_max_k);
        for &o in &order {
            let j = fed_idx[o];
            if j == usize::MAX {
                if let Abstract::Sparse(s) = &fed[o] {
                    for &cp in s {
                        // same item again: feed via a one-coupon sketch
                        let mut one = HllSketch::new(c.lg_max_k, HllType::Hll8);
                        one.verif_update_with_coupon(cp);
                        u2.update(&one);
                    }
                }
            } else {
                u2.update(&built[j].sk);
            }
        }
        let e = expect(c.lg_max_k, &fed);
        let r2 = u2.to_sketch(HllType::Hll8);
        check_result(&r2, &e, "permuted + repeated replay")?;
        let r1 = u.to_sketch(HllType::Hll8);
        ensure!(
            (r1.verif_state().mode == 2) == (r2.verif_state().mode == 2) || !e.all_sparse,
            "C03.order_dependence.mode",
            "original union array-mode={} permuted array-mode={}",
            r1.verif_state().mode == 2,
            r2.verif_state().mode == 2
        );
    }

    info.nontrivial = nontrivial_inputs.len() >= 2 && any_array;
    if any_array {
        info.label("some_array_input");
    }
    if lgs.len() >= 2 {
        info.label("mixed_lg_k");
    }
    Ok(())
}

pub fn def() -> PropDef {
    PropDef {
        id: "C03",
        assumptions: vec![
            "HLL image layout as transcribed in spec/hll.rs (used to build out-of-order inputs)",
            "result lg_k rule: min(lg_max_k, lg_k of array-mode inputs since the last reset)",
            "state read through HllSketch::verif_state on HllUnion::to_sketch results",
        ],
        subs: vec![Box::new(PropSub {
            name: "union_vs_model",
            rule: "lg_max_k 4..=14; 1..6 inputs over lg_k 4..=14 x {Hll4,Hll6,Hll8} x {empty, few keys, many keys, crafted coupons, full sweeps} x {fresh, crate round-trip, spec-encoded (incl. out-of-order flag, valid or zero HIP), result of an earlier union}; 1..13 steps of feed / update_value / reset / to_sketch; after every step the gadget is compared with the fold of everything fed; to_sketch of all three types compared; permuted+repeated replay. non-trivial = >=2 distinct non-empty input shapes with at least one array-mode input",
            cases_quick: 60_000,
            cases_thorough: 1_000_000,
            max_shrink_iters: 4000,
            limit_factor: 1,
            strategy: case_strategy,
            check: run_case,
        })],
        post: None,
    }
}
