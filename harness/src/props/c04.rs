//! C04 - theta sketch retains exactly the distinct hashes below theta (KMV invariant).

use super::PropDef;
use crate::kit::refhash;
use crate::kit::runner::{CaseInfo, Fail, PropSub};
use crate::kit::SplitMix;
use datasketches::common::ResizeFactor;
use datasketches::theta::ThetaSketch;
use proptest::prelude::*;
use serde::{Deserialize, Serialize};
use std::collections::BTreeSet;

pub const MAX_THETA: u64 = i64::MAX as u64;

#[derive(Debug, Clone, Serialize, Deserialize)]
pub enum Op {
    Update(u64),
    Burst { n: u16, seed: u64 },
    BigBurst { n: u32, seed: u64 },
    /// arbitrary 64-bit value offered as a hash (0, >= 2^63 and >= theta must be ignored)
    InsertHash(u64),
    /// hashes sharing the low (lg_k + 8) bits: same slot and same stride at every table size
    Collide { group: u8, hi: u32 },
    /// many members of one collision group
    CollideRun { group: u8, n: u8, seed: u64 },
    /// hash at theta + delta (just below / equal / above the current theta)
    NearTheta(i8),
    /// re-offer (through the public update) the key whose hash equals the current theta, if known
    ReofferTheta,
    /// re-offer an earlier hashed key
    Reoffer(u16),
    Trim,
    Reset,
    Compact(bool),
    /// update_f64 with these bits (-0.0 and 0.0 are one item, every NaN is one item)
    F64(u64),
    /// the u128 item whose MurmurHash3 digest under the case's seed is (h1, h2), through the public update:
    /// hash h1 >> 1 at will, incl. 0 and 2^63 - 1 (both outside (0, theta))
    Digest { h1: u64, h2: u64 },
}

#[derive(Debug, Clone, Serialize, Deserialize)]
pub struct Case {
    pub lg_k: u8,
    pub rf: u8,
    /// sampling probability as a u16 fraction; 65535 => exactly 1.0
    pub p: u16,
    pub seed: u64,
    pub ops: Vec<Op>,
}

pub fn rf_of(rf: u8) -> ResizeFactor {
    [ResizeFactor::X1, ResizeFactor::X2, ResizeFactor::X4, ResizeFactor::X8][rf as usize % 4]
}

pub fn p_of(p: u16) -> f32 {
    if p >= 60000 {
        1.0
    } else {
        // (0, 1): never 0
        ((p as f32) + 1.0) / 60002.0
    }
}

fn op_strategy(big: bool) -> impl Strategy<Value = Op> {
    let (lo, hi) = if big { (20_000u32, 150_000u32) } else { (1, 400) };
    prop_oneof![
        4 => (lo..=hi, any::<u64>()).prop_map(|(n, seed)| Op::BigBurst { n, seed }),
        30 => any::<u64>().prop_map(Op::Update),
        6 => (1u16..=600, any::<u64>()).prop_map(|(n, seed)| Op::Burst { n, seed }),
        10 => prop_oneof![
            Just(0u64), Just(1u64), Just(MAX_THETA), Just(MAX_THETA - 1), Just(MAX_THETA + 1), Just(u64::MAX),
            any::<u64>(), (0u64..1 << 40)
        ].prop_map(Op::InsertHash),
        14 => (0u8..4, any::<u32>()).prop_map(|(group, hi)| Op::Collide { group, hi }),
        4 => (0u8..4, 2u8..=120, any::<u64>()).prop_map(|(group, n, seed)| Op::CollideRun { group, n, seed }),
        8 => any::<i8>().prop_map(Op::NearTheta),
        4 => Just(Op::ReofferTheta),
        3 => any::<u16>().prop_map(Op::Reoffer),
        3 => Just(Op::Trim),
        1 => Just(Op::Reset),
        3 => any::<bool>().prop_map(Op::Compact),
        3 => prop_oneof![Just(0u64), Just(1u64 << 63), Just(0x7ff8000000000000u64), Just(0xfff8000000000001u64), Just(0x7ff0000000000000u64), any::<u64>()].prop_map(Op::F64),
        4 => (prop_oneof![Just(0u64), Just(1u64), Just(2u64), Just(3u64), Just(u64::MAX), Just(u64::MAX - 1), Just(u64::MAX - 2), any::<u64>(), (0u64..1 << 41)], any::<u64>()).prop_map(|(h1, h2)| Op::Digest { h1, h2 }),
    ]
}

pub fn case_strategy(max_lg: u8, max_ops: usize) -> impl Strategy<Value = Case> {
    (
        5u8..=max_lg,
        0u8..4,
        prop_oneof![3 => Just(65535u16), 2 => any::<u16>(), 1 => 0u16..600],
        prop_oneof![3 => Just(9001u64), 1 => any::<u64>()]
            .prop_filter("seed hash must be non-zero", |s| refhash::seed_hash(*s) != 0),
    )
        .prop_flat_map(move |(lg_k, rf, p, seed)| {
            proptest::collection::vec(op_strategy(lg_k >= 13), 0..(if lg_k >= 13 { 40 } else { max_ops }))
                .prop_map(move |ops| Case { lg_k, rf, p, seed, ops })
        })
}

fn collide_hash(lg_k: u8, group: u8, hi: u64) -> u64 {
    let low_bits = lg_k as u32 + 1 + 7; // lg_max_size + stride bits
    let low = crate::kit::fnv64(&[group, 0x5a]) & ((1u64 << low_bits) - 1);
    let h = low | (hi << low_bits);
    (h & (MAX_THETA >> 1)).max(1)
}

pub fn theta0(p: f32) -> u64 {
    if p < 1.0 {
        (MAX_THETA as f64 * p as f64) as u64
    } else {
        MAX_THETA
    }
}

struct Model {
    k: usize,
    h: BTreeSet<u64>,
    last_theta: u64,
    theta0: u64,
    offered_any: bool,
    /// hash -> key for hashed updates (so that a key with a chosen hash can be re-offered)
    keys: std::collections::HashMap<u64, u64>,
    key_list: Vec<u64>,
}

fn check(sk: &ThetaSketch, m: &mut Model, full: bool, ctx: &str) -> Result<(), Fail> {
    let theta = sk.theta64();
    ensure!(theta <= m.last_theta, "C04.theta_increased", "{ctx}: theta {} > previous {}", theta, m.last_theta);
    ensure!(theta > 0, "C04.theta_zero", "{ctx}: theta is 0");
    let below0 = m.h.range(..m.theta0).count();
    if theta < m.theta0 {
        ensure!(
            below0 > m.k,
            "C04.theta_lowered_too_early",
            "{ctx}: theta {} < initial {} but only {} distinct hashes qualified (k = {})",
            theta,
            m.theta0,
            below0,
            m.k
        );
        ensure!(m.h.contains(&theta), "C04.theta_not_a_hash", "{ctx}: theta {} is not one of the offered hashes", theta);
    }
    m.last_theta = theta;
    let n = sk.num_retained();
    ensure!(
        n <= (2 * m.k * 15) / 16,
        "C04.retained_over_capacity",
        "{ctx}: {} retained > 15/16 * 2k = {}",
        n,
        (2 * m.k * 15) / 16
    );
    if theta < m.theta0 {
        ensure!(n >= m.k, "C04.retained_below_k", "{ctx}: theta lowered but only {} < k retained", n);
    }
    let want_n = m.h.range(..theta).count();
    ensure!(n == want_n, "C04.retained_count", "{ctx}: num_retained {} but {} distinct hashes < theta {}", n, want_n, theta);
    if full {
        let mut got: Vec<u64> = sk.iter().collect();
        got.sort_unstable();
        ensure!(got.windows(2).all(|w| w[0] != w[1]), "C04.duplicate_entry", "{ctx}: duplicate retained hash");
        ensure!(!got.contains(&0), "C04.zero_entry", "{ctx}: 0 retained");
        let want: Vec<u64> = m.h.range(..theta).copied().collect();
        if got != want {
            let missing: Vec<&u64> = want.iter().filter(|x| got.binary_search(x).is_err()).take(4).collect();
            let extra: Vec<&u64> = got.iter().filter(|x| want.binary_search(x).is_err()).take(4).collect();
            fail!("C04.retained_set", "{ctx}: retained set differs: missing {missing:x?} extra {extra:x?} (theta {theta:x})");
        }
    }
    let est = sk.estimate();
    let want_est = if n == 0 { 0.0 } else { n as f64 / (theta as f64 / MAX_THETA as f64) };
    ensure!(
        (est - want_est).abs() <= 1e-9 * want_est.abs(),
        "C04.estimate",
        "{ctx}: estimate {} but retained/theta = {}",
        est,
        want_est
    );
    if theta == MAX_THETA {
        ensure!(est == m.h.len() as f64, "C04.exact_mode_estimate", "{ctx}: exact mode estimate {} but {} distinct", est, m.h.len());
    }
    ensure!(sk.is_estimation_mode() == (theta < MAX_THETA), "C04.is_estimation_mode", "{ctx}");
    Ok(())
}

pub fn run_case(c: &Case, info: &mut CaseInfo) -> Result<(), Fail> {
    let p = p_of(c.p);
    let k = 1usize << c.lg_k;
    let build = || ThetaSketch::builder().lg_k(c.lg_k).resize_factor(rf_of(c.rf)).sampling_probability(p).seed(c.seed).build();
    let mut sk = build();
    let t0 = theta0(p);
    ensure!(sk.theta64() == t0, "C04.initial_theta", "initial theta {} expected {} for p={}", sk.theta64(), t0, p);
    let mut m = Model { k, h: BTreeSet::new(), last_theta: t0, theta0: t0, offered_any: false, keys: Default::default(), key_list: vec![] };
    let mut rebuilds = 0u32;
    let mut collisions = 0u32;
    let mut trims = 0u32;
    let mut reoffered_theta = 0u32;
    info.label(format!("lg_k={}", c.lg_k));
    info.label(format!("rf=X{}", 1 << (c.rf % 4)));
    info.label(if p < 1.0 { "sampling" } else { "p=1" });

    let n_ops = c.ops.len();
    for (i, op) in c.ops.iter().enumerate() {
        let ctx = format!("after op #{i} {op:?}");
        let theta_before = sk.theta64();
        let mut full = sk.num_retained() < 300 || (i + 1).is_power_of_two() || i + 1 == n_ops;
        match op {
            Op::Update(key) => {
                sk.update(*key);
                let h = refhash::theta_hash(&key.to_le_bytes(), c.seed);
                if h != 0 {
                    m.h.insert(h);
                }
                m.keys.insert(h, *key);
                m.key_list.push(*key);
                m.offered_any = true;
            }
            Op::Burst { n, seed } => {
                let mut sm = SplitMix(*seed);
                for _ in 0..*n {
                    let key = sm.next();
                    sk.update(key);
                    let h = refhash::theta_hash(&key.to_le_bytes(), c.seed);
                    if h != 0 {
                        m.h.insert(h);
                    }
                    m.keys.insert(h, key);
                    if m.key_list.len() < 4096 {
                        m.key_list.push(key);
                    }
                }
                m.offered_any = true;
                full = true;
            }
            Op::BigBurst { n, seed } => {
                let mut sm = SplitMix(*seed);
                for _ in 0..*n {
                    let key = sm.next();
                    sk.update(key);
                    let h = refhash::theta_hash(&key.to_le_bytes(), c.seed);
                    if h != 0 {
                        m.h.insert(h);
                    }
                }
                m.offered_any = true;
                full = true;
            }
            Op::F64(bits) => {
                let v = f64::from_bits(*bits);
                sk.update_f64(v);
                // Java's canonical form: one zero, one NaN
                let canon: u64 = if v.is_nan() { 0x7ff8000000000000 } else if v == 0.0 { 0 } else { *bits };
                let h = refhash::theta_hash(&canon.to_le_bytes(), c.seed);
                if h != 0 && h < MAX_THETA {
                    m.h.insert(h);
                }
                m.offered_any = true;
            }
            Op::Digest { h1, h2 } => {
                sk.update(refhash::u128_item_for(*h1, *h2, c.seed));
                let h = *h1 >> 1;
                if h != 0 && h < MAX_THETA {
                    m.h.insert(h);
                }
                m.offered_any = true;
            }
            Op::InsertHash(h) => {
                sk.verif_insert_hash(*h);
                if *h != 0 && *h < MAX_THETA {
                    m.h.insert(*h);
                }
            }
            Op::Collide { group, hi } => {
                let h = collide_hash(c.lg_k, *group, *hi as u64);
                sk.verif_insert_hash(h);
                m.h.insert(h);
                collisions += 1;
            }
            Op::CollideRun { group, n, seed } => {
                let mut sm = SplitMix(*seed);
                for _ in 0..*n {
                    let h = collide_hash(c.lg_k, *group, sm.next() >> 24);
                    sk.verif_insert_hash(h);
                    m.h.insert(h);
                    collisions += 1;
                }
            }
            Op::NearTheta(d) => {
                let h = (sk.theta64() as i128 + *d as i128).clamp(1, u64::MAX as i128) as u64;
                sk.verif_insert_hash(h);
                if h < MAX_THETA {
                    m.h.insert(h);
                }
            }
            Op::ReofferTheta => {
                if let Some(&key) = m.keys.get(&sk.theta64()) {
                    reoffered_theta += 1;
                    sk.update(key);
                }
            }
            Op::Reoffer(i) => {
                if !m.key_list.is_empty() {
                    let key = m.key_list[crate::kit::pick_idx(*i, m.key_list.len())];
                    sk.update(key);
                }
            }
            Op::Trim => {
                let before: Vec<u64> = m.h.range(..sk.theta64()).copied().collect();
                sk.trim();
                trims += 1;
                full = true;
                if before.len() > k {
                    ensure!(
                        sk.theta64() == before[k],
                        "C04.trim.theta",
                        "{ctx}: theta after trim {} but the (k+1)-th smallest is {}",
                        sk.theta64(),
                        before[k]
                    );
                    ensure!(sk.num_retained() == k, "C04.trim.count", "{ctx}: {} retained after trim, k = {}", sk.num_retained(), k);
                } else {
                    ensure!(
                        sk.theta64() == theta_before && sk.num_retained() == before.len(),
                        "C04.trim.changed_small_sketch",
                        "{ctx}: trim changed a sketch with <= k entries"
                    );
                }
            }
            Op::Reset => {
                sk.reset();
                m.h.clear();
                m.keys.clear();
                m.key_list.clear();
                m.last_theta = t0;
                m.offered_any = false;
                full = true;
                ensure!(sk.theta64() == t0, "C04.reset.theta", "{ctx}: theta after reset {} expected {}", sk.theta64(), t0);
                ensure!(sk.num_retained() == 0 && sk.is_empty(), "C04.reset.not_empty", "{ctx}");
                ensure!(sk.iter().count() == 0, "C04.reset.entries", "{ctx}");
            }
            Op::Compact(ordered) => {
                let cs = sk.compact(*ordered);
                let mut a: Vec<u64> = sk.iter().collect();
                a.sort_unstable();
                let raw: Vec<u64> = cs.iter().collect();
                let mut b = raw.clone();
                b.sort_unstable();
                ensure!(a == b, "C04.compact.entries", "{ctx}: compact holds {} entries, sketch {}", b.len(), a.len());
                if *ordered {
                    ensure!(raw == b, "C04.compact.not_sorted", "{ctx}: ordered compact sketch is not sorted");
                    ensure!(cs.is_ordered(), "C04.compact.ordered_flag", "{ctx}: compact(true).is_ordered() is false");
                }
                if cs.is_ordered() {
                    ensure!(raw == b, "C04.compact.flag_without_order", "{ctx}: is_ordered() but entries unsorted");
                }
                ensure!(cs.is_empty() == sk.is_empty(), "C04.compact.emptiness", "{ctx}: compact empty={} sketch empty={}", cs.is_empty(), sk.is_empty());
                ensure!(cs.num_retained() == sk.num_retained(), "C04.compact.count", "{ctx}");
                let (e1, e2) = (cs.estimate(), sk.estimate());
                ensure!((e1 - e2).abs() <= 1e-12 * e2.abs(), "C04.compact.estimate", "{ctx}: compact estimate {e1} sketch {e2}");
                if !sk.is_empty() {
                    ensure!(cs.theta64() == sk.theta64(), "C04.compact.theta", "{ctx}: compact theta {} sketch {}", cs.theta64(), sk.theta64());
                }
                ensure!(cs.seed_hash() == refhash::seed_hash(c.seed), "C04.compact.seed_hash", "{ctx}");
            }
        }
        if sk.theta64() != theta_before {
            rebuilds += 1;
            full = true;
        }
        check(&sk, &mut m, full, &ctx)?;
    }
    // reset == fresh: a fresh sketch fed the post-reset suffix must equal this one (theta + entries)
    info.nontrivial = rebuilds > 0 && (collisions > 0 || c.lg_k >= 13);
    if rebuilds > 0 {
        info.label("rebuilt");
    }
    if trims > 0 {
        info.label("trimmed");
    }
    if reoffered_theta > 0 {
        info.label("reoffered_item_with_hash==theta");
    }
    if collisions >= 16 {
        info.label("collision_chain>=16");
    }
    info.sum("rebuilds", rebuilds as f64);
    Ok(())
}

pub fn def() -> PropDef {
    PropDef {
        id: "C04",
        assumptions: vec![
            "theta hash = MurmurHash3(item, seed).h1 >> 1 (reference hash)",
            "chosen hash values enter through ThetaSketch::verif_insert_hash, which mirrors update() after hashing",
        ],
        subs: vec![
            Box::new(PropSub {
                name: "kmv_history",
                rule: "lg_k 5..=9, resize factors X1..X8, p in (0,1], seeds; histories of update / burst / arbitrary hash values (0, 2^63-1, >= 2^63) / collision groups sharing slot and stride bits at every table size / hashes at theta-1, theta, theta+1 / trim / reset / compact; after every op: retained set == {h in H : h < theta} (full set comparison while < 300 retained, then at powers of two, every theta change, trim, reset, burst and the end; count comparison always), theta monotone and justified, capacity, estimate. non-trivial = at least one theta change and crafted collisions present",
                cases_quick: 60_000,
                cases_thorough: 300_000,
                max_shrink_iters: 4000,
                limit_factor: 1,
                strategy: || case_strategy(9, 500),
                check: run_case,
            }),
            Box::new(PropSub {
                name: "kmv_history_large",
                rule: "same with lg_k 5..=12 (thorough: up to 16 via VERIF scale) and up to 3000 ops",
                cases_quick: 4_000,
                cases_thorough: 30_000,
                max_shrink_iters: 3000,
                limit_factor: 1,
                strategy: || case_strategy(12, 3000),
                check: run_case,
            }),
            Box::new(PropSub {
                name: "kmv_history_lg16",
                rule: "spot checks with lg_k 13..=16, histories of <= 40 ops dominated by bursts of 20k..150k hashed keys; non-trivial = theta changed",
                cases_quick: 200,
                cases_thorough: 1_500,
                max_shrink_iters: 500,
                limit_factor: 1,
                strategy: || case_strategy(16, 1200).prop_filter("lg_k >= 13", |c| c.lg_k >= 13),
                check: run_case,
            }),
        ],
        post: None,
    }
}
