//! C18 - sketch size is bounded by configuration, not by stream length.

use super::c02;
use super::c04;
use super::PropDef;
use crate::kit::draw::Draw;
use crate::kit::refhash;
use crate::kit::report::{SubReport, Violation};
use crate::kit::runner::{CaseInfo, Ctx, Fail, FnSub, PropSub};
use crate::kit::SplitMix;
use crate::model::cpc::simulate_timed;
use crate::model::hll::HllModel;
use datasketches::bloom::BloomFilterBuilder;
use datasketches::countmin::CountMinSketch;
use datasketches::cpc::CpcSketch;
use datasketches::frequencies::FrequentItemsSketch;
use datasketches::hll::HllSketch;
use datasketches::tdigest::TDigestMut;
use datasketches::theta::ThetaSketch;
use proptest::prelude::*;
use serde::{Deserialize, Serialize};
use serde_json::json;
use std::collections::BTreeSet;
use std::sync::Mutex;

// ---------------------------------------------------------------------------------------- HLL

fn hll_expected_len(m: &HllModel, ty: u8) -> usize {
    let (mode, _) = m.predicted_mode();
    let k = m.k();
    match mode {
        0 => 8 + 4 * m.coupons.len(),
        1 => 12 + 4 * m.coupons.len(),
        _ => {
            40 + match ty {
                0 => {
                    let min = *m.regs.iter().min().unwrap();
                    k / 2 + 4 * m.regs.iter().filter(|&&r| r - min >= 15).count()
                }
                1 => 3 * k / 4 + 1,
                _ => k,
            }
        }
    }
}

pub fn hll_sizes(c: &c02::Case, info: &mut CaseInfo) -> Result<(), Fail> {
    let lg_k = c.lg_k;
    let mut m = HllModel::new(lg_k);
    let mut sks: Vec<HllSketch> = c02::TYPES.iter().map(|&t| HllSketch::new(lg_k, t)).collect();
    let mut history: Vec<Vec<u32>> = vec![];
    let mut offered = 0u64;
    let mut aux_max = 0usize;
    for (i, op) in c.ops.iter().enumerate() {
        let mut cs = vec![];
        c02::expand(op, lg_k, &history, &mut cs);
        for &cp in &cs {
            m.offer(cp);
        }
        for sk in sks.iter_mut() {
            c02::apply(sk, op, &cs);
        }
        offered += cs.len() as u64;
        history.push(if cs.len() <= 64 { cs } else { cs[..64].to_vec() });
        let small = (1usize << lg_k) <= 4096;
        if !(i < 40 || (i + 1).is_power_of_two() || i + 1 == c.ops.len() || (small && i % 16 == 0)) {
            continue;
        }
        for (j, sk) in sks.iter().enumerate() {
            let want = hll_expected_len(&m, j as u8);
            let got = sk.serialize().len();
            ensure!(
                got == want,
                "C18.hll_image_size",
                "after op #{i} ({op:?}), {} lg_k {lg_k}: image has {got} bytes, the mode / lg_k / aux count dictate {want} (model mode {:?}, {} distinct coupons)",
                c02::tname(c02::TYPES[j]),
                m.predicted_mode(),
                m.distinct
            );
        }
        if m.predicted_mode().0 == 2 {
            let min = *m.regs.iter().min().unwrap();
            aux_max = aux_max.max(m.regs.iter().filter(|&&r| r - min >= 15).count());
        }
    }
    // the bound belongs to the receiving configuration: the sketches fed to unions of their own and of smaller
    // lg_max_k, followed by single values; no result image may exceed the Hll8 array bound of the union's lg_k
    if lg_k <= 14 {
        for lg_max in [lg_k, lg_k.saturating_sub(3).max(4), 4] {
            for (j, sk) in sks.iter().enumerate() {
                let mut u = datasketches::hll::HllUnion::new(lg_max);
                u.update(sk);
                let mut sm = SplitMix(c.perm_seed ^ j as u64);
                for n in 0..600u32 {
                    u.update_value(sm.next());
                    if n == 0 || n == 40 || n == 599 {
                        let lg_r = lg_max.min(lg_k);
                        let kr = 1usize << lg_r;
                        for (ti, t) in c02::TYPES.into_iter().enumerate() {
                            // array images: Hll4 k/2 nibble bytes + 4 per aux entry (at most k), Hll6 3k/4 + 1, Hll8 k
                            let bound = 40 + [kr / 2 + 4 * kr, 3 * kr / 4 + 1, kr][ti];
                            let r = u.to_sketch(t);
                            let len = r.serialize().len();
                            ensure!(
                                len <= bound && r.lg_config_k() <= lg_max,
                                "C18.hll_union_image_size",
                                "{} lg_k {lg_k} ({} coupons) fed to a union of lg_max_k {lg_max}, then {} values: result image ({}) has {len} bytes, the largest image of lg_k {lg_r} and that type has {bound}",
                                c02::tname(c02::TYPES[j]),
                                m.distinct,
                                n + 1,
                                c02::tname(t)
                            );
                        }
                    }
                }
            }
        }
    }
    info.nontrivial = m.predicted_mode().0 == 2 && offered > (1u64 << lg_k);
    info.label(["ended=list", "ended=set", "ended=array"][m.predicted_mode().0 as usize]);
    if aux_max > 0 {
        info.label("hll4_aux_entries");
    }
    Ok(())
}

pub fn hll_case() -> impl Strategy<Value = c02::Case> {
    (prop_oneof![6 => 4u8..=10, 3 => 11u8..=14, 1 => Just(21u8)], any::<u64>()).prop_flat_map(|(lg_k, perm_seed)| {
        let heavy = lg_k <= 12;
        proptest::collection::vec(c02::op_strategy(heavy), 0..(if lg_k >= 15 { 30 } else { 800 }))
            .prop_map(move |ops| c02::Case { lg_k, ops, perm_seed })
    })
}

// -------------------------------------------------------------------------------------- theta

#[derive(Debug, Clone, Serialize, Deserialize)]
pub struct ThetaCase {
    pub lg_k: u8,
    pub rf: u8,
    pub p: u16,
    /// bursts of n hashed keys, or of n crafted hashes in descending order (every one accepted)
    pub bursts: Vec<(bool, u32, u64)>,
    pub trim_after: Vec<bool>,
}

pub fn theta_case() -> impl Strategy<Value = ThetaCase> {
    (
        5u8..=12,
        0u8..4,
        prop_oneof![3 => Just(65535u16), 1 => any::<u16>()],
        proptest::collection::vec((any::<bool>(), 1u32..=40_000, any::<u64>()), 1..8),
        proptest::collection::vec(any::<bool>(), 8),
    )
        .prop_map(|(lg_k, rf, p, bursts, trim_after)| ThetaCase { lg_k, rf, p, bursts, trim_after })
}

pub fn theta_sizes(c: &ThetaCase, info: &mut CaseInfo) -> Result<(), Fail> {
    let p = c04::p_of(c.p);
    let k = 1usize << c.lg_k;
    let cap = 2 * k * 15 / 16;
    let mut sk = ThetaSketch::builder().lg_k(c.lg_k).resize_factor(c04::rf_of(c.rf)).sampling_probability(p).build();
    let mut h: BTreeSet<u64> = BTreeSet::new();
    let mut next_desc = c04::MAX_THETA - 1;
    let mut total = 0u64;
    for (bi, (desc, n, seed)) in c.bursts.iter().enumerate() {
        let mut sm = SplitMix(*seed);
        for j in 0..*n {
            if *desc {
                // strictly descending hashes: each one is below theta as long as theta > next_desc
                next_desc -= 1 + sm.below(1 << 20);
                sk.verif_insert_hash(next_desc);
                h.insert(next_desc);
            } else {
                let key = sm.next();
                sk.update(key);
                let x = refhash::theta_hash(&key.to_le_bytes(), 9001);
                if x != 0 {
                    h.insert(x);
                }
            }
            total += 1;
            if j % 64 == 0 || total.is_power_of_two() {
                ensure!(
                    sk.num_retained() <= cap,
                    "C18.theta_retained",
                    "burst #{bi} item #{j}: {} entries retained > 15/16 * 2k = {cap} (lg_k {})",
                    sk.num_retained(),
                    c.lg_k
                );
            }
        }
        ensure!(sk.num_retained() <= cap, "C18.theta_retained", "after burst #{bi}: {} retained > {cap}", sk.num_retained());
        let img = sk.compact(true).serialize();
        ensure!(img.len() <= 24 + 8 * cap, "C18.theta_image_size", "after burst #{bi}: compact image {} bytes > 24 + 8 * {cap}", img.len());
        if c.trim_after[bi % 8] {
            let below = h.range(..sk.theta64()).count();
            sk.trim();
            ensure!(
                sk.num_retained() == below.min(k),
                "C18.theta_trim",
                "after burst #{bi} + trim: {} retained, expected min(distinct below theta {below}, k {k})",
                sk.num_retained()
            );
        }
    }
    info.nontrivial = total as usize > cap;
    if c.bursts.iter().any(|b| b.0) {
        info.label("descending_hashes");
    }
    Ok(())
}

// ------------------------------------------------------------------ FI / Bloom / CM / t-digest

#[derive(Debug, Clone, Serialize, Deserialize)]
pub struct MiscCase {
    pub fi_lg: u8,
    pub fi_strings: bool,
    pub bloom_bits: u64,
    pub bloom_hashes: u16,
    pub cm_hashes: u8,
    pub cm_buckets: u32,
    pub td_k: u16,
    pub n: u32,
    /// 0 distinct, 1 repeated (small domain), 2 sorted ascending
    pub shape: u8,
    pub seed: u64,
}

pub fn misc_case() -> impl Strategy<Value = MiscCase> {
    (prop_oneof![1 => 0u8..=2, 8 => 3u8..=11], any::<bool>(), 1u64..=70_000, 1u16..=16, 1u8..=8, 3u32..=512, 10u16..=500, 1u32..=60_000, 0u8..3, any::<u64>())
        .prop_map(|(fi_lg, fi_strings, bloom_bits, bloom_hashes, cm_hashes, cm_buckets, td_k, n, shape, seed)| MiscCase {
            fi_lg,
            fi_strings,
            bloom_bits,
            bloom_hashes,
            cm_hashes,
            cm_buckets,
            td_k,
            n,
            shape,
            seed,
        })
}

pub fn misc_sizes(c: &MiscCase, info: &mut CaseInfo) -> Result<(), Fail> {
    let mut sm = SplitMix(c.seed);
    let mut fi_u: FrequentItemsSketch<u64> = FrequentItemsSketch::new(1usize << c.fi_lg);
    let mut fi_s: FrequentItemsSketch<String> = FrequentItemsSketch::new(1usize << c.fi_lg);
    let mut bf = BloomFilterBuilder::with_size(c.bloom_bits, c.bloom_hashes).build();
    let mut cm = CountMinSketch::<u32>::new(c.cm_hashes, c.cm_buckets);
    let mut td = TDigestMut::new(c.td_k);
    let bf_words = c.bloom_bits.div_ceil(64) as usize;
    let cm_cells = c.cm_hashes as usize * c.cm_buckets as usize;
    ensure!(bf.serialize().len() == 24, "C18.bloom_image_size", "empty Bloom image {} bytes, expected 24", bf.serialize().len());
    ensure!(cm.serialize().len() == 16, "C18.countmin_image_size", "empty Count-Min image {} bytes, expected 16", cm.serialize().len());
    // sizes below 8 are raised to 8 (the documented minimum map size)
    let cap = (1usize << c.fi_lg.max(3)) * 3 / 4;
    let mut max_str = 0usize;
    for i in 0..c.n as u64 {
        let id = match c.shape {
            0 => sm.next(),
            1 => sm.below(50),
            _ => i,
        };
        if c.fi_strings {
            let s = format!("item-{id}");
            max_str = max_str.max(s.len());
            fi_s.update(s);
        } else {
            fi_u.update(id);
        }
        bf.insert(id);
        cm.update(id);
        td.update(id as f64);
        if (i + 1).is_power_of_two() || i + 1 == c.n as u64 {
            let ctx = format!("after {} items (shape {})", i + 1, c.shape);
            if c.fi_strings {
                ensure!(fi_s.num_active_items() <= cap && fi_s.maximum_map_capacity() == cap, "C18.fi_active_items", "{ctx}: {} active items > capacity {cap}", fi_s.num_active_items());
                let len = fi_s.serialize().len();
                ensure!(len <= 32 + (16 + 4 + max_str) * cap, "C18.fi_image_size", "{ctx}: string image {len} bytes > 32 + (16 + 4 + {max_str}) * {cap}");
            } else {
                ensure!(fi_u.num_active_items() <= cap && fi_u.maximum_map_capacity() == cap, "C18.fi_active_items", "{ctx}: {} active items > capacity {cap}", fi_u.num_active_items());
                let len = fi_u.serialize().len();
                ensure!(len <= 32 + 16 * cap, "C18.fi_image_size", "{ctx}: image {len} bytes > 32 + 16 * {cap}");
            }
            let bl = bf.serialize().len();
            ensure!(bl == 32 + 8 * bf_words, "C18.bloom_image_size", "{ctx}: Bloom image {bl} bytes, configuration implies {}", 32 + 8 * bf_words);
            let cl = cm.serialize().len();
            ensure!(cl == 24 + 8 * cm_cells, "C18.countmin_image_size", "{ctx}: Count-Min image {cl} bytes, configuration implies {}", 24 + 8 * cm_cells);
            let tl = td.serialize().len();
            ensure!(tl <= 32 + 16 * (2 * c.td_k as usize + 30), "C18.tdigest_image_size", "{ctx}: t-digest image {tl} bytes > 32 + 16 (2k + 30), k = {}", c.td_k);
        }
    }
    // the bound belongs to the receiving configuration: a full sketch merged into fresh sketches of every smaller
    // (and the next larger) map size, and into a sketch that was reset by deserializing an empty image
    if !c.fi_strings {
        for lg in 0..=(c.fi_lg + 1).min(11) {
            let mut dst: FrequentItemsSketch<u64> = FrequentItemsSketch::new(1usize << lg);
            if lg % 2 == 0 {
                dst = FrequentItemsSketch::<u64>::deserialize(&dst.serialize()).map_err(|e| Fail { clause: "C18.fi_empty_image".into(), detail: format!("{e}") })?;
            }
            dst.merge(&fi_u);
            let dcap = (1usize << lg.max(3)) * 3 / 4;
            let ctx = format!("a sketch of map size {} ({} active) merged into a fresh sketch of map size {}", 1usize << c.fi_lg, fi_u.num_active_items(), 1usize << lg);
            ensure!(dst.maximum_map_capacity() == dcap && dst.num_active_items() <= dcap, "C18.fi_active_items", "{ctx}: {} active items > capacity {dcap}", dst.num_active_items());
            ensure!(dst.lg_cur_map_size() <= dst.lg_max_map_size() && dst.current_map_capacity() <= dst.maximum_map_capacity(), "C18.fi_map_size", "{ctx}: current map lg {} > configured maximum lg {}", dst.lg_cur_map_size(), dst.lg_max_map_size());
            let len = dst.serialize().len();
            ensure!(len <= 32 + 16 * dcap, "C18.fi_image_size", "{ctx}: image {len} bytes > 32 + 16 * {dcap}");
            ensure!(dst.total_weight() == fi_u.total_weight(), "C18.fi_merge_weight", "{ctx}: total weight {} -> {}", fi_u.total_weight(), dst.total_weight());
        }
    }
    info.nontrivial = c.n as usize > 4 * cap && c.shape != 1;
    info.label(["shape=distinct", "shape=repeated", "shape=sorted"][c.shape as usize % 3]);
    Ok(())
}

// ---------------------------------------------------------------------------------------- CPC

/// Population: fraction of sketches whose image ever exceeds max_serialized_bytes(lg_k).
fn cpc_sizes(ctx: &Ctx) -> SubReport {
    let mut rep = SubReport {
        rule: "per lg_k 4..=12: T simulated sketches (exact arrival-time simulation of a hashed stream up to 2^22 items, quick: 2^20), serialized at every half-power-of-two cardinality from k/8 upwards; the fraction of sketches that EVER exceed max_serialized_bytes(lg_k) must be <= 0.1 % + 6-sigma binomial margin; every sketch is non-trivial (reaches the sliding flavor); distinct by stream seed".into(),
        ..Default::default()
    };
    let lgs: Vec<u8> = (4..=12).collect();
    let thorough = ctx.tier == crate::kit::Tier::Thorough;
    let max_lg_n = if thorough { 22.0 } else { 20.0 };
    let outs: Mutex<Vec<(u8, u64, u64, usize, usize, Option<serde_json::Value>)>> = Mutex::new(vec![]);
    let next = std::sync::atomic::AtomicUsize::new(0);
    // work items: (lg_k, chunk)
    let chunks = 8usize;
    std::thread::scope(|sc| {
        for _ in 0..ctx.threads.max(1) {
            sc.spawn(|| loop {
                let w = next.fetch_add(1, std::sync::atomic::Ordering::Relaxed);
                if w >= lgs.len() * chunks {
                    break;
                }
                let lg_k = lgs[w / chunks];
                let _chunk = w % chunks;
                let base = if lg_k <= 9 { ctx.cases(16000, 100000) } else { ctx.cases(4000, 30000) } as usize;
                let t = base / chunks;
                let bound = CpcSketch::max_serialized_bytes(lg_k);
                let mut d = Draw::new(ctx.seed, ctx.prop, "cpc_sizes", w);
                let (mut exceed, mut max_len) = (0u64, 0usize);
                let mut worst = None;
                for _ in 0..t {
                    let seed = d.u64();
                    let cells = simulate_timed(lg_k, (max_lg_n as f64).exp2(), seed, None);
                    let mut sk = CpcSketch::new(lg_k);
                    let k = (1u64 << lg_k) as f64;
                    let mut next_cp = (k / 8.0).max(1.0);
                    let mut this_max = 0usize;
                    for (time, rc) in cells {
                        while time > next_cp {
                            this_max = this_max.max(sk.serialize().len());
                            next_cp *= std::f64::consts::SQRT_2;
                        }
                        sk.verif_row_col_update(if rc == u32::MAX { rc ^ (1 << 6) } else { rc });
                    }
                    this_max = this_max.max(sk.serialize().len());
                    if this_max > bound {
                        exceed += 1;
                        if worst.is_none() {
                            worst = Some(json!({"lg_k": lg_k, "stream_seed": seed, "max_image_bytes": this_max, "bound": bound}));
                        }
                    }
                    max_len = max_len.max(this_max);
                }
                outs.lock().unwrap().push((lg_k, t as u64, exceed, max_len, bound, worst));
            });
        }
    });
    let mut per: std::collections::BTreeMap<u8, (u64, u64, usize, usize, Option<serde_json::Value>)> = Default::default();
    for (lg, t, ex, ml, b, w) in outs.into_inner().unwrap() {
        let e = per.entry(lg).or_insert((0, 0, 0, b, None));
        e.0 += t;
        e.1 += ex;
        e.2 = e.2.max(ml);
        if e.4.is_none() {
            e.4 = w;
        }
    }
    let mut table = vec![];
    for (lg, (t, ex, ml, b, w)) in per {
        rep.evaluations += t;
        for i in 0..t {
            rep.nontrivial.insert(((lg as u64) << 40) | i);
        }
        let f = ex as f64 / t as f64;
        let limit = 0.001 + crate::kit::stats::binom_margin(0.001, t);
        table.push(json!({"lg_k": lg, "sketches": t, "exceeding": ex, "fraction": f, "limit": limit, "max_image_bytes": ml, "max_serialized_bytes": b}));
        if f > limit {
            rep.violations.push(Violation {
                sub: "cpc_sizes".into(),
                clause: "C18.cpc_image_size".into(),
                detail: format!("lg_k {lg}: {ex} of {t} sketches exceeded max_serialized_bytes = {b} at some cardinality (fraction {f:.4} > 0.1 % + margin = {limit:.4}); largest image {ml} bytes"),
                case: w.unwrap_or(json!({"lg_k": lg})),
            });
        }
        if rep.samples.len() < 3 {
            rep.samples.push(json!({"lg_k": lg, "sketches": t, "max_image_bytes": ml, "bound": b}));
        }
    }
    rep.extra.insert("cpc_size_table".into(), json!(table));
    rep
}

pub fn def() -> PropDef {
    PropDef {
        id: "C18",
        assumptions: vec![
            "HLL storage mode is decided by the model from the number of distinct coupons (list < 8, set growth at 3/4 load, array at lg_k - 3)",
            "CPC size population uses the exact arrival-time simulation of a hashed stream (C05) so that 2^20..2^22 items cost O(64 k) per sketch",
        ],
        subs: vec![
            Box::new(PropSub {
                name: "hll_image_sizes",
                rule: "C02's history generator (lg_k 4..=14 and 21, all three types); image length compared with 8+4c / 12+4c / 40 + {k/2, 3k/4+1, k} + 4 per aux entry, the mode taken from the model, at the first 40 ops, powers of two, periodically and at the end; finally each sketch is fed to unions of its own and of smaller lg_max_k followed by 600 single values, whose result images must stay within the array bound of the union's lg_k. non-trivial = array mode and more coupons than registers",
                cases_quick: 30_000,
                cases_thorough: 120_000,
                max_shrink_iters: 2000,
                limit_factor: 1,
                strategy: hll_case,
                check: hll_sizes,
            }),
            Box::new(PropSub {
                name: "theta_retention",
                rule: "lg_k 5..=12, all resize factors, sampling; bursts of hashed keys and of strictly descending crafted hashes (every one accepted); retained <= 15/16 * 2k checked every 64 inserts, compact image size bound, retained == min(distinct below theta, k) after trim. non-trivial = more items than 15/16 * 2k",
                cases_quick: 6_000,
                cases_thorough: 30_000,
                max_shrink_iters: 500,
                limit_factor: 1,
                strategy: theta_case,
                check: theta_sizes,
            }),
            Box::new(PropSub {
                name: "fixed_and_capped_sizes",
                rule: "Frequent Items (u64 or String items), Bloom, Count-Min and t-digest fed 1..60000 distinct / repeated / sorted items; at every power-of-two prefix: FI active items <= capacity and image <= 32 + 16 * capacity (+ string bytes), Bloom and Count-Min image lengths equal the constant their configuration implies, t-digest image <= 32 + 16 (2k + 30); at the end the Frequent Items sketch is merged into fresh (or deserialized-empty) sketches of every smaller and the next larger map size, whose own capacity, map size and image bounds must hold. non-trivial = stream longer than 4x the FI capacity and not the repeated shape",
                cases_quick: 6_000,
                cases_thorough: 30_000,
                max_shrink_iters: 300,
                limit_factor: 1,
                strategy: misc_case,
                check: misc_sizes,
            }),
            Box::new(FnSub {
                name: "cpc_sizes",
                run: cpc_sizes,
                replay: |ctx: &Ctx, _c: &serde_json::Value| match cpc_sizes(ctx).violations.first() {
                    Some(v) => Err(Fail { clause: v.clause.clone(), detail: v.detail.clone() }),
                    None => Ok(()),
                },
            }),
        ],
        post: None,
    }
}
