//! C07 - Frequent-items bounds always bracket the true count, across updates and merges.

use super::PropDef;
use crate::kit::runner::{CaseInfo, Fail, PropSub};
use crate::kit::{pick_idx, SplitMix};
use datasketches::frequencies::{ErrorType, FrequentItemValue, FrequentItemsSketch};
use proptest::prelude::*;
use serde::{Deserialize, Serialize};
use std::collections::{BTreeSet, HashMap};
use std::hash::Hash;

#[derive(Debug, Clone, Serialize, Deserialize)]
pub enum Shape {
    Uniform,
    Zipf,
    /// every item exactly once, in order (all counts equal: a purge removes every counter)
    AllDistinct,
    /// a few heavy hitters among uniform noise
    Heavy,
}

#[derive(Debug, Clone, Serialize, Deserialize)]
pub enum Step {
    Update { sk: u8, item: u16, w: u64 },
    Run { sk: u8, shape: Shape, n: u16, w: u64, seed: u64 },
    Merge { dst: u8, src: u8 },
}

#[derive(Debug, Clone, Serialize, Deserialize)]
pub struct Case {
    /// 0 = i64, 1 = u64, 2 = String
    pub kind: u8,
    /// lg of max_map_size per sketch (3..=11)
    pub lg_sizes: Vec<u8>,
    /// domain size as a multiple (x/4) of the largest map size
    pub domain_q: u8,
    pub steps: Vec<Step>,
}

pub fn weight_strategy() -> impl Strategy<Value = u64> {
    prop_oneof![
        12 => Just(1u64),
        6 => 1u64..=20,
        2 => 1u64..=(1u64 << 32),
        // documented no-op
        1 => Just(0u64),
        // counters beyond 2^63 (a signed reading of the counter would be negative)
        1 => (1u64 << 62)..=(1u64 << 63) + 1000,
    ]
}

fn step_strategy() -> impl Strategy<Value = Step> {
    prop_oneof![
        10 => (any::<u8>(), any::<u16>(), weight_strategy()).prop_map(|(sk, item, w)| Step::Update { sk, item, w }),
        6 => (
            any::<u8>(),
            prop_oneof![Just(Shape::Uniform), Just(Shape::Zipf), Just(Shape::AllDistinct), Just(Shape::Heavy)],
            1u16..=3000,
            weight_strategy(),
            any::<u64>()
        )
            .prop_map(|(sk, shape, n, w, seed)| Step::Run { sk, shape, n, w, seed }),
        3 => (any::<u8>(), any::<u8>()).prop_map(|(dst, src)| Step::Merge { dst, src }),
    ]
}

pub fn case_strategy(equal_sizes: bool) -> impl Strategy<Value = Case> {
    let sizes = if equal_sizes {
        (prop_oneof![1 => 0u8..=2, 12 => 3u8..=10], 1usize..=5).prop_map(|(lg, n)| vec![lg; n]).boxed()
    } else {
        proptest::collection::vec(prop_oneof![1 => 0u8..=2, 12 => 3u8..=11], 1..=5).boxed()
    };
    (0u8..3, sizes, 1u8..=16, proptest::collection::vec(step_strategy(), 1..40))
        .prop_map(|(kind, lg_sizes, domain_q, steps)| Case { kind, lg_sizes, domain_q, steps })
}

pub fn stream(shape: &Shape, n: usize, domain: u64, seed: u64) -> Vec<u64> {
    let mut sm = SplitMix(seed);
    let mut out = Vec::with_capacity(n);
    match shape {
        Shape::Uniform => {
            for _ in 0..n {
                out.push(sm.below(domain));
            }
        }
        Shape::Zipf => {
            // inverse-power sampling: id = floor(domain^u) - 1 (heavy head)
            for _ in 0..n {
                let u = sm.unit();
                let id = ((domain as f64).powf(u) - 1.0).floor() as u64;
                out.push(id.min(domain - 1));
            }
        }
        Shape::AllDistinct => {
            let start = sm.below(domain);
            for i in 0..n as u64 {
                out.push((start + i) % domain);
            }
        }
        Shape::Heavy => {
            for _ in 0..n {
                if sm.below(3) == 0 {
                    out.push(sm.below(4.min(domain)));
                } else {
                    out.push(sm.below(domain));
                }
            }
        }
    }
    out
}

struct Side<T> {
    sk: FrequentItemsSketch<T>,
    truth: HashMap<u64, u64>,
    total: u64,
    /// map sizes of all sketches that contributed
    sizes: BTreeSet<u8>,
    merged: bool,
}

fn check_side<T: FrequentItemValue + Hash + Eq + Clone + std::fmt::Debug>(
    s: &Side<T>,
    domain: u64,
    conv: &dyn Fn(u64) -> T,
    ctx: &str,
) -> Result<(), Fail> {
    let sk = &s.sk;
    ensure!(sk.total_weight() == s.total, "C07.total_weight", "{ctx}: total_weight {} but the stream weight is {}", sk.total_weight(), s.total);
    ensure!(
        sk.num_active_items() <= sk.maximum_map_capacity(),
        "C07.num_active",
        "{ctx}: {} active items > maximum_map_capacity {}",
        sk.num_active_items(),
        sk.maximum_map_capacity()
    );
    let err = sk.maximum_error();
    if s.sizes.len() == 1 && *s.sizes.iter().next().unwrap() <= 10 {
        let bound = sk.epsilon() * s.total as f64;
        ensure!(
            err as f64 <= bound * (1.0 + 1e-12),
            "C07.maximum_error_vs_epsilon",
            "{ctx}: maximum_error {} > epsilon {} * total_weight {} = {}",
            err,
            sk.epsilon(),
            s.total,
            bound
        );
    }
    for id in 0..domain {
        let item = conv(id);
        let t = s.truth.get(&id).copied().unwrap_or(0);
        let (lb, ub, est) = (sk.lower_bound(&item), sk.upper_bound(&item), sk.estimate(&item));
        ensure!(lb <= t, "C07.lower_bound", "{ctx}: item {item:?}: lower_bound {lb} > true count {t}");
        ensure!(t <= ub, "C07.upper_bound", "{ctx}: item {item:?}: upper_bound {ub} < true count {t} (maximum_error {err})");
        ensure!(ub - lb <= err, "C07.interval_width", "{ctx}: item {item:?}: ub - lb = {} > maximum_error {err}", ub - lb);
        ensure!(lb <= est && est <= ub, "C07.estimate_outside", "{ctx}: item {item:?}: estimate {est} not in [{lb}, {ub}]");
    }
    // frequent items
    let nfp = sk.frequent_items(ErrorType::NoFalsePositives);
    let nfn = sk.frequent_items(ErrorType::NoFalseNegatives);
    let inv: HashMap<T, u64> = (0..domain).map(|id| (conv(id), id)).collect();
    for (rows, name) in [(&nfp, "NoFalsePositives"), (&nfn, "NoFalseNegatives")] {
        let mut prev = u64::MAX;
        let mut seen = BTreeSet::new();
        for r in rows.iter() {
            let id = *inv.get(r.item()).ok_or_else(|| Fail {
                clause: "C07.rows.unknown_item".into(),
                detail: format!("{ctx}: {name} row with item {:?} never offered", r.item()),
            })?;
            ensure!(seen.insert(id), "C07.rows.duplicate", "{ctx}: {name} lists {:?} twice", r.item());
            ensure!(
                r.lower_bound() == sk.lower_bound(r.item()) && r.upper_bound() == sk.upper_bound(r.item()),
                "C07.rows.inconsistent",
                "{ctx}: {name} row {:?} lb {} ub {} but queries give {} {}",
                r.item(),
                r.lower_bound(),
                r.upper_bound(),
                sk.lower_bound(r.item()),
                sk.upper_bound(r.item())
            );
            ensure!(
                r.lower_bound() <= r.estimate() && r.estimate() <= r.upper_bound(),
                "C07.rows.estimate",
                "{ctx}: row estimate {} outside [{}, {}]",
                r.estimate(),
                r.lower_bound(),
                r.upper_bound()
            );
            ensure!(r.estimate() <= prev, "C07.rows.order", "{ctx}: {name} rows not sorted by descending estimate");
            prev = r.estimate();
        }
    }
    for r in &nfp {
        let id = inv[r.item()];
        let t = s.truth.get(&id).copied().unwrap_or(0);
        ensure!(t > err, "C07.false_positive", "{ctx}: NoFalsePositives returned {:?} with true count {t} <= threshold {err}", r.item());
    }
    // custom thresholds (documented: max(threshold, maximum_error) applies; NoFalsePositives lists lower_bound >
    // threshold, NoFalseNegatives upper_bound > threshold)
    {
        let mut ts: Vec<u64> = s.truth.values().copied().collect();
        ts.sort_unstable();
        let median = ts.get(ts.len() / 2).copied().unwrap_or(0);
        for t in [0u64, err / 2, err, err.saturating_mul(2).saturating_add(1), median, ts.last().copied().unwrap_or(0)] {
            let eff = t.max(err);
            let fp = sk.frequent_items_with_threshold(ErrorType::NoFalsePositives, t);
            for r in &fp {
                let id = *inv.get(r.item()).ok_or_else(|| Fail { clause: "C07.rows.unknown_item".into(), detail: format!("{ctx}: threshold {t}: row with item {:?} never offered", r.item()) })?;
                let tr = s.truth.get(&id).copied().unwrap_or(0);
                ensure!(tr > eff, "C07.threshold.false_positive", "{ctx}: frequent_items_with_threshold(NoFalsePositives, {t}) returned {:?} with true count {tr} <= {eff}", r.item());
            }
            let fnn: BTreeSet<u64> = sk.frequent_items_with_threshold(ErrorType::NoFalseNegatives, t).iter().filter_map(|r| inv.get(r.item()).copied()).collect();
            for (&id, &tr) in &s.truth {
                if tr > eff {
                    ensure!(fnn.contains(&id), "C07.threshold.false_negative", "{ctx}: item {:?} has true count {tr} > {eff} but frequent_items_with_threshold(NoFalseNegatives, {t}) omits it", conv(id));
                }
            }
        }
    }
    let listed: BTreeSet<u64> = nfn.iter().map(|r| inv[r.item()]).collect();
    for (&id, &t) in &s.truth {
        if t > err {
            ensure!(
                listed.contains(&id),
                "C07.false_negative",
                "{ctx}: item {:?} has true count {t} > threshold {err} but NoFalseNegatives omits it",
                conv(id)
            );
        }
    }
    Ok(())
}

fn run_typed<T: FrequentItemValue + Hash + Eq + Clone + std::fmt::Debug>(
    c: &Case,
    info: &mut CaseInfo,
    conv: &dyn Fn(u64) -> T,
) -> Result<(), Fail> {
    // map sizes below 8 are raised to 8 (documented minimum)
    let max_lg = (*c.lg_sizes.iter().max().unwrap()).max(3);
    let domain = (((1u64 << max_lg) * c.domain_q as u64) / 4).max(2);
    let mut sides: Vec<Side<T>> = c
        .lg_sizes
        .iter()
        .map(|&lg| Side {
            sk: FrequentItemsSketch::new(1usize << lg),
            truth: HashMap::new(),
            total: 0,
            sizes: [lg.max(3)].into_iter().collect(),
            merged: false,
        })
        .collect();
    let n_sk = sides.len();
    let mut purged = false;
    let mut merges = 0u32;
    let mut merged_emptied = false;
    let n_steps = c.steps.len();
    for (i, st) in c.steps.iter().enumerate() {
        let ctx = format!("after step #{i} {st:?}");
        let touched;
        match st {
            Step::Update { sk, item, w } => {
                let j = pick_idx((*sk as u16) << 8, n_sk);
                let id = ((*item as u64) * domain) >> 16;
                // the stream weight (and count + offset) must fit u64: a weight that would not is not offered
                let w = if sides[j].total.checked_add(*w).map(|t| t < u64::MAX - (1 << 50)).unwrap_or(false) { *w } else { 1 };
                let w = &w;
                sides[j].sk.update_with_count(conv(id), *w);
                *sides[j].truth.entry(id).or_insert(0) += *w;
                sides[j].total += *w;
                touched = j;
                if i % 8 != 7 && i + 1 != n_steps {
                    continue;
                }
            }
            Step::Run { sk, shape, n, w, seed } => {
                let j = pick_idx((*sk as u16) << 8, n_sk);
                let w = if (*w as u128) * (*n as u128) + (sides[j].total as u128) < (u64::MAX - (1 << 50)) as u128 { *w } else { 1 };
                let w = &w;
                for id in stream(shape, *n as usize, domain, *seed) {
                    sides[j].sk.update_with_count(conv(id), *w);
                    *sides[j].truth.entry(id).or_insert(0) += *w;
                    sides[j].total += *w;
                }
                touched = j;
            }
            Step::Merge { dst, src } => {
                if n_sk < 2 {
                    continue;
                }
                let d = pick_idx((*dst as u16) << 8, n_sk);
                let mut s = pick_idx((*src as u16) << 8, n_sk);
                if s == d {
                    s = (d + 1) % n_sk;
                }
                if sides[d].total.checked_add(sides[s].total).map(|t| t >= u64::MAX - (1 << 50)).unwrap_or(true) {
                    continue;
                }
                let (src_truth, src_total, src_sizes) = (sides[s].truth.clone(), sides[s].total, sides[s].sizes.clone());
                if sides[s].sk.is_empty() && src_total > 0 {
                    merged_emptied = true;
                }
                let src_sk = sides[s].sk.clone();
                sides[d].sk.merge(&src_sk);
                for (id, t) in src_truth {
                    *sides[d].truth.entry(id).or_insert(0) += t;
                }
                sides[d].total += src_total;
                sides[d].sizes.extend(src_sizes);
                sides[d].merged = true;
                merges += 1;
                touched = d;
            }
        }
        check_side(&sides[touched], domain, conv, &ctx)?;
        purged |= sides[touched].sk.maximum_error() > 0;
    }
    for (j, s) in sides.iter().enumerate() {
        check_side(s, domain, conv, &format!("final state of sketch {j}"))?;
        purged |= s.sk.maximum_error() > 0;
    }
    info.nontrivial = purged && merges > 0;
    if purged {
        info.label("purged");
    }
    if merges > 0 {
        info.label("merged");
    }
    if merged_emptied {
        info.label("merged_a_sketch_emptied_by_purge");
    }
    info.label(["items=i64", "items=u64", "items=String"][c.kind as usize % 3]);
    Ok(())
}

pub fn run_case(c: &Case, info: &mut CaseInfo) -> Result<(), Fail> {
    match c.kind % 3 {
        0 => run_typed::<i64>(c, info, &|id| id as i64 - 1000),
        1 => run_typed::<u64>(c, info, &|id| id.wrapping_mul(0x9E3779B97F4A7C15)),
        _ => run_typed::<String>(c, info, &|id| format!("item-{id}")),
    }
}


// ---------------------------------------------------------------------------------------------
// adversarial keys: every key of a cluster has the same home slot in the item map

#[derive(Debug, Clone, Serialize, Deserialize)]
pub struct ClusterCase {
    pub lg_max: u8,
    pub slot: u16,
    /// cluster size as a fraction (x/255) of the map capacity 0.75 * 2^lg_max
    pub cluster_q: u8,
    /// further keys with arbitrary home slots, offered after the cluster (purges once the map is full)
    pub extra: u16,
    pub start: u64,
    pub wseed: u64,
    /// 1: instead of a cluster, `extra`+769.. ordinary keys whose WEIGHT depends on their home slot (the keys in the
    /// lowest slots are heavy): a purge that samples counters in slot order sees a biased sample
    #[serde(default)]
    pub mode: u8,
}

fn cluster_case() -> impl Strategy<Value = ClusterCase> {
    (prop_oneof![1 => 3u8..=8, 3 => 9u8..=10, 1 => Just(11u8)], any::<u16>(), prop_oneof![1 => 1u8..=254, 2 => Just(255u8)], prop_oneof![2 => Just(0u16), 2 => 0u16..=200, 1 => 0u16..=3000], any::<u64>(), any::<u64>())
        .prop_map(|(lg_max, slot, cluster_q, extra, start, wseed)| ClusterCase { lg_max, slot, cluster_q, extra, start, wseed, mode: (wseed % 5 == 0) as u8 })
}

/// mode 1: weights ordered by home slot.
fn run_slot_weights(c: &ClusterCase, info: &mut CaseInfo) -> Result<(), Fail> {
    let lg = c.lg_max.clamp(6, 10);
    let size = 1u64 << lg;
    let cap = (size * 3 / 4) as usize;
    let n_keys = cap + 1 + (c.extra as usize % (cap / 2 + 1));
    let mut sm = SplitMix(c.wseed);
    let mut keys: Vec<u64> = Vec::with_capacity(n_keys);
    let mut seen = BTreeSet::new();
    while keys.len() < n_keys {
        let k = sm.next();
        if seen.insert(k) {
            keys.push(k);
        }
    }
    let home = |k: u64| crate::kit::refhash::murmur3_x64_128(&k.to_le_bytes(), crate::kit::refhash::DEFAULT_SEED).0 & (size - 1);
    let mut by_slot = keys.clone();
    by_slot.sort_by_key(|k| home(*k));
    // between a quarter and 3/8 of the capacity is heavy: below the true median rank, above a biased sample's
    let heavy_n = cap / 3 + (c.cluster_q as usize * cap / 255) / 24;
    let heavy: BTreeSet<u64> = by_slot.iter().take(heavy_n).copied().collect();
    let pos: HashMap<u64, u64> = keys.iter().enumerate().map(|(i, k)| (*k, i as u64)).collect();
    let conv = |id: u64| keys[id as usize];
    let mut side: Side<u64> = Side { sk: FrequentItemsSketch::new(size as usize), truth: HashMap::new(), total: 0, sizes: [lg].into_iter().collect(), merged: false };
    let domain = keys.len() as u64;
    for (i, k) in keys.iter().enumerate() {
        let w = if heavy.contains(k) { 1000 } else { 1 };
        side.sk.update_with_count(*k, w);
        *side.truth.entry(pos[k]).or_insert(0) += w;
        side.total += w;
        if i + 1 == cap || i + 1 == cap + 1 || i + 1 == keys.len() {
            check_side(&side, domain, &conv, &format!("map size {size}, {} keys, the {heavy_n} keys with the lowest home slots weigh 1000, after {} updates", keys.len(), i + 1))?;
        }
    }
    info.label("slot_ordered_weights");
    info.label(format!("lg_max={lg}"));
    info.nontrivial = side.sk.maximum_error() > 0;
    Ok(())
}

fn run_cluster(c: &ClusterCase, info: &mut CaseInfo) -> Result<(), Fail> {
    if c.mode == 1 {
        return run_slot_weights(c, info);
    }
    let size = 1u64 << c.lg_max;
    let cap = (size * 3 / 4) as usize;
    let n_cluster = ((cap * c.cluster_q as usize) / 255).max(1);
    let slot = c.slot as u64 & (size - 1);
    // the item map hashes an item with MurmurHash3 (seed 9001) and takes the low bits of h1 as the home slot;
    // equal low lg_max bits collide at every smaller map size as well
    let mut keys: Vec<u64> = Vec::with_capacity(n_cluster + c.extra as usize);
    let mut x = c.start;
    while keys.len() < n_cluster {
        if crate::kit::refhash::murmur3_x64_128(&x.to_le_bytes(), crate::kit::refhash::DEFAULT_SEED).0 & (size - 1) == slot {
            keys.push(x);
        }
        x = x.wrapping_add(1);
    }
    let mut sm = SplitMix(c.wseed);
    let cluster: std::collections::BTreeSet<u64> = keys.iter().copied().collect();
    let mut extras: Vec<u64> = vec![];
    for _ in 0..c.extra {
        let e = sm.next();
        if !cluster.contains(&e) && !extras.contains(&e) {
            extras.push(e);
        }
    }
    let mut cl: Vec<u64> = keys.clone();
    for i in (1..cl.len()).rev() {
        cl.swap(i, sm.below(i as u64 + 1) as usize);
    }
    // cluster keys first (shuffled), then the extras
    let order: Vec<u64> = cl.into_iter().chain(extras.iter().copied()).collect();
    keys.extend(extras.iter().copied());
    let pos: HashMap<u64, u64> = keys.iter().enumerate().map(|(i, k)| (*k, i as u64)).collect();
    let conv = |id: u64| keys[id as usize];
    let mut side: Side<u64> = Side { sk: FrequentItemsSketch::new(size as usize), truth: HashMap::new(), total: 0, sizes: [c.lg_max].into_iter().collect(), merged: false };
    let domain = keys.len() as u64;
    let checkpoints = [n_cluster / 2, n_cluster, n_cluster + (c.extra as usize) / 2];
    for (i, k) in order.iter().enumerate() {
        let w = 1 + sm.below(1000);
        side.sk.update_with_count(*k, w);
        *side.truth.entry(pos[k]).or_insert(0) += w;
        side.total += w;
        if checkpoints.contains(&(i + 1)) {
            check_side(&side, domain, &conv, &format!("map size {size}, {} keys with home slot {slot}, after {} updates", n_cluster, i + 1))?;
        }
    }
    // a second pass over the cluster (every key must be found again at its probe distance)
    for k in order.iter().take(n_cluster) {
        side.sk.update_with_count(*k, 1);
        *side.truth.entry(pos[k]).or_insert(0) += 1;
        side.total += 1;
    }
    check_side(&side, domain, &conv, &format!("map size {size}, {} keys with home slot {slot}, end", n_cluster))?;
    info.label(format!("lg_max={}", c.lg_max));
    if n_cluster > 256 {
        info.label("probe_distance>=256");
    }
    if side.sk.maximum_error() > 0 {
        info.label("purged");
    }
    info.nontrivial = n_cluster >= 8;
    Ok(())
}

pub fn def() -> PropDef {
    PropDef {
        id: "C07",
        assumptions: vec![
            "exact frequency map kept by the harness for every sketch and propagated through merges",
            "maximum_error <= epsilon * total_weight is demanded only when every contributing sketch has the same map size <= 1024, as the property states",
        ],
        subs: vec![
            Box::new(PropSub {
                name: "bounds_mixed_sizes",
                rule: "1..5 sketches of max_map_size 8..=2048 (independent sizes), item domain up to 4x the largest map, items i64 / u64 / String, weights 1 / small / up to 2^32; steps = single updates, shaped runs (uniform, Zipf, all-distinct = equal counts, heavy hitters) and merges between any two sketches; after every run / merge and every 8th single update: every item of the domain queried (lb <= truth <= ub, width <= maximum_error, estimate in range), total_weight, num_active, frequent_items in both error modes. non-trivial = a purge happened (maximum_error > 0) and at least one merge",
                cases_quick: 40_000,
                cases_thorough: 120_000,
                max_shrink_iters: 3000,
                limit_factor: 1,
                strategy: || case_strategy(false),
                check: run_case,
            }),
            Box::new(PropSub {
                name: "bounds_equal_sizes",
                rule: "same with all sketches of one map size 8..=1024, which also enables the maximum_error <= epsilon * total_weight clause across merges",
                cases_quick: 40_000,
                cases_thorough: 120_000,
                max_shrink_iters: 3000,
                limit_factor: 1,
                strategy: || case_strategy(true),
                check: run_case,
            }),
            Box::new(PropSub {
                name: "clustered_keys",
                rule: "adversarial u64 keys found by search with the reference hash: a cluster of up to 0.75 * 2^lg keys (lg 3..=11) that all share one home slot of the item map (probe distances up to the cluster size, beyond 255 for lg >= 9), offered in random order with random weights, followed by 0..3000 ordinary keys (purges), then the cluster once more; one case in five instead offers capacity+1.. ordinary keys whose weight depends on their home slot (the keys in the lowest slots are heavy: a purge sampling in slot order would see a biased median, which the maximum_error <= epsilon * total_weight clause exposes); the same exact-frequency oracle as above at three or four points. non-trivial = cluster of at least 8 keys",
                cases_quick: 6_000,
                cases_thorough: 60_000,
                max_shrink_iters: 60,
                limit_factor: 2,
                strategy: cluster_case,
                check: run_cluster,
            }),
        ],
        post: None,
    }
}
