//! HLL part of C11 (round-trip) and C12 (layout vs model): shared generation.

use super::c02::{self, tname, TYPES};
use super::c03;
use crate::kit::runner::{CaseInfo, Fail};
use crate::model::hll::HllModel;
use crate::spec::hll as spec;
use datasketches::common::NumStdDev;
use datasketches::hll::{HllSketch, HllType, HllUnion, VerifHllState};
use proptest::prelude::*;
use serde::{Deserialize, Serialize};

#[derive(Debug, Clone, Serialize, Deserialize)]
pub struct Case {
    pub lg_k: u8,
    pub ops: Vec<c02::Op>,
    /// operations applied to both the original and the deserialized copy afterwards
    pub more: Vec<c02::Op>,
    /// also take the state through a union first (out-of-order result of the given type)
    pub via_union: Option<u8>,
}

pub fn case_strategy() -> impl Strategy<Value = Case> {
    (prop_oneof![8 => 4u8..=10, 3 => 11u8..=14, 1 => Just(21u8)], proptest::option::weighted(0.2, 0u8..3)).prop_flat_map(|(lg_k, via_union)| {
        let heavy = lg_k <= 12;
        (
            proptest::collection::vec(c02::op_strategy(heavy), 0..(if lg_k >= 15 { 20 } else { 500 })),
            proptest::collection::vec(c02::op_strategy(heavy), 0..(if lg_k >= 15 { 4 } else { 30 })),
        )
            .prop_map(move |(ops, more)| Case { lg_k, ops, more, via_union })
    })
}

fn abstract_eq(a: &VerifHllState, b: &VerifHllState) -> Result<(), String> {
    if a.mode != b.mode {
        return Err(format!("mode {} vs {}", a.mode, b.mode));
    }
    if a.mode < 2 {
        let mut x: Vec<u32> = a.coupon_slots.iter().copied().filter(|&c| c != 0).collect();
        let mut y: Vec<u32> = b.coupon_slots.iter().copied().filter(|&c| c != 0).collect();
        x.sort_unstable();
        y.sort_unstable();
        if x != y {
            return Err(format!("coupon sets differ ({} vs {})", x.len(), y.len()));
        }
        if a.coupon_count != b.coupon_count {
            return Err(format!("coupon counts {} vs {}", a.coupon_count, b.coupon_count));
        }
        if a.lg_arr != b.lg_arr {
            return Err(format!("container lg size {} vs {}", a.lg_arr, b.lg_arr));
        }
        if a.coupon_slots.len() != b.coupon_slots.len() {
            return Err(format!("container capacity {} vs {}", a.coupon_slots.len(), b.coupon_slots.len()));
        }
    } else {
        if a.registers != b.registers {
            return Err("registers differ".into());
        }
        let mut ax = a.aux.clone();
        let mut bx = b.aux.clone();
        ax.sort_unstable();
        bx.sort_unstable();
        if ax != bx || a.cur_min != b.cur_min || a.num_at_cur_min != b.num_at_cur_min || a.raw_nibbles != b.raw_nibbles {
            return Err(format!("cur_min / num_at_cur_min / aux differ: ({}, {}, {:?}) vs ({}, {}, {:?})", a.cur_min, a.num_at_cur_min, ax, b.cur_min, b.num_at_cur_min, bx));
        }
        // the HIP accumulator is meaningless (and not preserved) once the sketch is out of order
        let hip_differs = !a.out_of_order && a.hip_accum.to_bits() != b.hip_accum.to_bits();
        if hip_differs || a.kxq0.to_bits() != b.kxq0.to_bits() || a.kxq1.to_bits() != b.kxq1.to_bits() || a.out_of_order != b.out_of_order {
            return Err(format!(
                "estimator state differs: hip {} vs {}, kxq ({}, {}) vs ({}, {}), ooo {} vs {}",
                a.hip_accum, b.hip_accum, a.kxq0, a.kxq1, b.kxq0, b.kxq1, a.out_of_order, b.out_of_order
            ));
        }
    }
    Ok(())
}

fn reads(s: &HllSketch) -> [u64; 7] {
    [
        s.estimate().to_bits(),
        s.lower_bound(NumStdDev::One).to_bits(),
        s.lower_bound(NumStdDev::Two).to_bits(),
        s.lower_bound(NumStdDev::Three).to_bits(),
        s.upper_bound(NumStdDev::One).to_bits(),
        s.upper_bound(NumStdDev::Two).to_bits(),
        s.upper_bound(NumStdDev::Three).to_bits(),
    ]
}

fn build(c: &Case, ty: HllType) -> (HllSketch, HllModel, bool) {
    let mut m = HllModel::new(c.lg_k);
    let mut s = HllSketch::new(c.lg_k, ty);
    let mut history: Vec<Vec<u32>> = vec![];
    for op in &c.ops {
        let mut cs = vec![];
        c02::expand(op, c.lg_k, &history, &mut cs);
        for &cp in &cs {
            m.offer(cp);
        }
        c02::apply(&mut s, op, &cs);
        history.push(if cs.len() <= 64 { cs } else { cs[..64].to_vec() });
    }
    let mut merged = false;
    if let Some(t) = c.via_union {
        let mut u = HllUnion::new(c.lg_k);
        u.update(&s);
        // a second, one-coupon input makes the result out-of-order in array mode
        let mut one = HllSketch::new(c.lg_k, HllType::Hll8);
        one.verif_update_with_coupon((1 << 26) | 5);
        m.offer((1 << 26) | 5);
        u.update(&one);
        s = u.to_sketch(c03::ty_of(t));
        merged = true;
    }
    (s, m, merged)
}

pub fn roundtrip(c: &Case, info: &mut CaseInfo) -> Result<(), Fail> {
    for &ty in TYPES.iter() {
        let (mut s, _m, merged) = build(c, ty);
        let t = tname(s.target_type());
        let bytes = s.serialize();
        let mut d = HllSketch::deserialize(&bytes).map_err(|e| Fail { clause: "C11.hll.rejected".into(), detail: format!("{t} lg_k {}: own image rejected: {e}", c.lg_k) })?;
        let (sa, sb) = (s.verif_state(), d.verif_state());
        ensure!(d.lg_config_k() == s.lg_config_k() && d.target_type() == s.target_type() && d.is_empty() == s.is_empty(), "C11.hll.accessors", "{t}: lg_k / type / emptiness changed");
        if let Err(e) = abstract_eq(&sa, &sb) {
            fail!("C11.hll.state", "{t} lg_k {} (mode {}, merged {merged}): {e}", c.lg_k, sa.mode);
        }
        ensure!(reads(&s) == reads(&d), "C11.hll.estimate", "{t} lg_k {}: estimate / bounds differ after the round trip", c.lg_k);
        let again = d.serialize();
        if again != bytes {
            // only the order of Hll4 aux pairs is not canonical
            let (ia, ib) = (spec::decode(&bytes), spec::decode(&again));
            // not canonical: the order of Hll4 aux pairs, and the HIP field of an out-of-order
            // image (meaningless there; the reader resets it)
            let mut aux_reordered = false;
            let same = match (ia, ib) {
                (Ok(mut a), Ok(mut b)) => {
                    aux_reordered = a.aux != b.aux;
                    a.aux.sort_unstable();
                    b.aux.sort_unstable();
                    if a.flags & spec::OOO != 0 && b.flags & spec::OOO != 0 {
                        a.hip = 0.0;
                        b.hip = 0.0;
                    }
                    a == b
                }
                _ => false,
            };
            ensure!(same && (!aux_reordered || s.target_type() == HllType::Hll4), "C11.hll.reserialize", "{t} lg_k {}: re-serialized image differs ({} vs {} bytes)", c.lg_k, bytes.len(), again.len());
        }
        // behave identically afterwards
        let mut history: Vec<Vec<u32>> = vec![];
        for (i, op) in c.more.iter().enumerate() {
            let mut cs = vec![];
            c02::expand(op, c.lg_k, &history, &mut cs);
            c02::apply(&mut s, op, &cs);
            c02::apply(&mut d, op, &cs);
            history.push(if cs.len() <= 64 { cs } else { cs[..64].to_vec() });
            if let Err(e) = abstract_eq(&s.verif_state(), &d.verif_state()) {
                fail!("C11.hll.diverges_after_update", "{t} lg_k {} after follow-up op #{i} {op:?}: {e}", c.lg_k);
            }
            ensure!(reads(&s) == reads(&d), "C11.hll.diverges_after_update", "{t} lg_k {}: estimates differ after follow-up op #{i} {op:?}: {} vs {}", c.lg_k, s.estimate(), d.estimate());
        }
        let (mut u1, mut u2) = (HllUnion::new(c.lg_k.min(12)), HllUnion::new(c.lg_k.min(12)));
        u1.update(&s);
        u2.update(&d);
        // A union walks the coupon container in slot order; the copy's hash table may be laid out
        // differently (same coupons), so the order-dependent HIP value of the gadget is not compared.
        let (g1, g2) = (u1.to_sketch(HllType::Hll8).verif_state(), u2.to_sketch(HllType::Hll8).verif_state());
        let same = if g1.mode < 2 || g2.mode < 2 {
            let x: std::collections::BTreeSet<u32> = g1.coupon_slots.iter().copied().filter(|&c| c != 0).collect();
            let y: std::collections::BTreeSet<u32> = g2.coupon_slots.iter().copied().filter(|&c| c != 0).collect();
            g1.mode == g2.mode && x == y
        } else {
            g1.registers == g2.registers && g1.kxq0 == g2.kxq0 && g1.kxq1 == g2.kxq1 && g1.out_of_order == g2.out_of_order
        };
        ensure!(same, "C11.hll.diverges_in_union", "{t} lg_k {}: unions of original and copy hold different registers / coupons", c.lg_k);
        info.label(format!("hll:{}:{}", ["list", "set", "array"][sa.mode as usize], if merged { "merged" } else { "streamed" }));
        info.nontrivial |= sa.mode > 0;
    }
    Ok(())
}

pub fn layout(c: &Case, info: &mut CaseInfo) -> Result<(), Fail> {
    for (ti, &ty) in TYPES.iter().enumerate() {
        let (s, m, merged) = build(c, ty);
        let ty_idx = match s.target_type() {
            HllType::Hll4 => 0u8,
            HllType::Hll6 => 1,
            HllType::Hll8 => 2,
        };
        let _ = ti;
        let t = tname(s.target_type());
        let bytes = s.serialize();
        let im = spec::decode(&bytes).map_err(|e| Fail { clause: "C12.hll.undecodable".into(), detail: format!("{t} lg_k {}: a Java/C++ reader cannot decode the image: {e}", c.lg_k) })?;
        ensure!(im.consumed == bytes.len(), "C12.hll.trailing_bytes", "{t}: {} bytes but the layout accounts for {}", bytes.len(), im.consumed);
        ensure!(im.lg_k == c.lg_k && im.tgt == ty_idx, "C12.hll.header", "{t}: header lg_k {} type {}", im.lg_k, im.tgt);
        let st = s.verif_state();
        // the abstract state the sketch is known to hold: the model of the stream
        let (pmode, plg) = if merged { (st.mode, st.lg_arr) } else { m.predicted_mode() };
        ensure!(im.mode == pmode, "C12.hll.mode", "{t} lg_k {}: image mode {} but {} distinct coupons imply mode {pmode}", c.lg_k, im.mode, m.distinct);
        if im.mode < 2 {
            let mut got = im.coupons.clone();
            got.sort_unstable();
            let want: Vec<u32> = m.coupons.iter().copied().collect();
            ensure!(got == want, "C12.hll.coupons", "{t} lg_k {}: image holds {} coupons, the stream has {} distinct", c.lg_k, got.len(), want.len());
            ensure!(im.declared_count as usize == want.len(), "C12.hll.count_field", "{t}: count field {} for {} coupons", im.declared_count, want.len());
            ensure!((im.flags & spec::EMPTY != 0) == want.is_empty(), "C12.hll.empty_flag", "{t}: empty flag {} with {} coupons", im.flags & spec::EMPTY, want.len());
            ensure!(im.flags & spec::OOO == 0, "C12.hll.ooo_flag_in_sparse_mode", "{t}: out-of-order flag in list/set mode");
            if im.mode == 1 && !merged {
                ensure!(im.lg_arr as usize == plg, "C12.hll.lg_arr", "{t} lg_k {}: set image lgArr {} but {} coupons live in a 2^{plg} table", c.lg_k, im.lg_arr, want.len());
            }
            if im.mode == 0 {
                ensure!(im.lg_arr == 3, "C12.hll.lg_arr", "{t}: list image lgArr {}", im.lg_arr);
            }
        } else {
            if im.registers != m.regs {
                let i = (0..m.regs.len()).find(|&i| im.registers.get(i) != m.regs.get(i)).unwrap_or(0);
                fail!("C12.hll.registers", "{t} lg_k {}: a Java/C++ reader sees register[{i}] = {:?}, the stream implies {}", c.lg_k, im.registers.get(i), m.regs[i]);
            }
            let min = *m.regs.iter().min().unwrap();
            if ty_idx == 0 {
                ensure!(im.state == min, "C12.hll.cur_min", "{t}: curMin byte {} but min register {min}", im.state);
                let n = m.regs.iter().filter(|&&r| r == min).count() as u32;
                ensure!(im.num_at_cur_min == n, "C12.hll.num_at_cur_min", "{t}: numAtCurMin {} expected {n}", im.num_at_cur_min);
                let want_aux = m.regs.iter().filter(|&&r| r - min >= 15).count() as u32;
                ensure!(im.aux_count == want_aux, "C12.hll.aux_count", "{t}: auxCount {} but {want_aux} exceptions", im.aux_count);
            } else {
                ensure!(im.state == 0, "C12.hll.cur_min", "{t}: curMin byte {}", im.state);
                let z = m.regs.iter().filter(|&&r| r == 0).count() as u32;
                ensure!(im.num_at_cur_min == z, "C12.hll.num_zeros", "{t}: numAtCurMin {} but {z} zero registers", im.num_at_cur_min);
                ensure!(im.aux_count == 0, "C12.hll.aux_count", "{t}: auxCount {}", im.aux_count);
            }
            let (a, b) = m.kxq();
            ensure!(
                (im.kxq0 - a).abs() <= 1e-9 * a && (im.kxq1 - b).abs() <= 1e-9 * b + 1e-300,
                "C12.hll.kxq",
                "{t}: kxq fields ({}, {}) recomputed ({a}, {b})",
                im.kxq0,
                im.kxq1
            );
            ensure!((im.flags & spec::OOO != 0) == st.out_of_order, "C12.hll.ooo_flag", "{t}: out-of-order flag {} but the sketch is {}", im.flags & spec::OOO, if st.out_of_order { "out of order" } else { "in order" });
            if !st.out_of_order {
                ensure!(im.hip == s.estimate(), "C12.hll.hip", "{t}: hipAccum field {} but the in-order estimate is {}", im.hip, s.estimate());
            }
            ensure!(im.flags & spec::EMPTY == 0, "C12.hll.empty_flag", "{t}: empty flag on an array image");
        }
        info.label(format!("hll:{}", ["list", "set", "array"][im.mode as usize]));
        info.nontrivial |= im.mode > 0;
    }
    Ok(())
}
