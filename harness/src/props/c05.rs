//! C05 - CPC sketch state is exactly the set of distinct (row, col) coupons seen.

use super::PropDef;
use crate::kit::refhash;
use crate::kit::runner::{CaseInfo, Fail, PropSub};
use crate::kit::SplitMix;
use crate::model::cpc::{correct_offset, flavor, simulate, CpcModel};
use datasketches::cpc::CpcSketch;
use proptest::prelude::*;
use serde::{Deserialize, Serialize};

#[derive(Debug, Clone, Serialize, Deserialize)]
pub enum Op {
    Key(u64),
    Burst { n: u16, seed: u64 },
    /// crafted coupon; row is a u16 fraction of k
    Coupon { row: u16, col: u8 },
    /// exact arrival simulation up to cardinality 2^(lg_n_x16 / 16)
    Sim { lg_n_x16: u16, seed: u64, warp: bool, dups: bool, swaps: bool },
    /// the u128 item whose MurmurHash3 digest under the case's seed is (h1, h2), offered through update():
    /// row bits and every leading-zero count of h2 (column 0..63, h2 = 0) at will
    Digest { h1: u64, h2: u64 },
    /// n crafted coupons whose rows lie in a narrow band [lo, lo + width) of the k rows (as u16 fractions of k):
    /// long empty row ranges next to tight clusters (large Golomb high parts in the compressed pair stream)
    Band { lo: u16, width: u16, n: u16, seed: u64 },
    /// replace the sketch by the result of a union fed with it (merge flag set, no HIP) and carry on updating
    ViaUnion,
}

#[derive(Debug, Clone, Serialize, Deserialize)]
pub struct Case {
    pub lg_k: u8,
    pub seed: u64,
    pub ops: Vec<Op>,
}

pub fn seed_strategy() -> impl Strategy<Value = u64> {
    prop_oneof![3 => Just(9001u64), 1 => any::<u64>()]
        .prop_filter("seed hash must be non-zero", |s| refhash::seed_hash(*s) != 0)
}

fn col_strategy() -> impl Strategy<Value = u8> {
    prop_oneof![
        4 => any::<u64>().prop_map(|x| x.leading_zeros().min(63) as u8),
        2 => 0u8..=63,
        1 => prop_oneof![Just(0u8), Just(7), Just(8), Just(9), Just(55), Just(56), Just(57), Just(62), Just(63)],
    ]
}

pub fn op_strategy() -> impl Strategy<Value = Op> {
    prop_oneof![
        10 => any::<u64>().prop_map(Op::Key),
        3 => (1u16..=3000, any::<u64>()).prop_map(|(n, seed)| Op::Burst { n, seed }),
        10 => (any::<u16>(), col_strategy()).prop_map(|(row, col)| Op::Coupon { row, col }),
        3 => (0u16..=960, any::<u64>(), proptest::bool::weighted(0.3), proptest::bool::weighted(0.3), proptest::bool::weighted(0.3))
            .prop_map(|(lg_n_x16, seed, warp, dups, swaps)| Op::Sim { lg_n_x16, seed, warp, dups, swaps }),
        2 => (any::<u16>(), prop_oneof![1u16..=64, 1u16..=2000], 1u16..=400, any::<u64>()).prop_map(|(lo, width, n, seed)| Op::Band { lo, width, n, seed }),
        1 => Just(Op::ViaUnion),
        4 => (any::<u64>(), col_strategy(), any::<u64>()).prop_map(|(h1, col, r)| {
            // h2 with exactly `col` leading zeros; col 63: 63 or 64 (h2 = 1 or 0)
            let h2 = if col >= 63 { r & 1 } else { ((1u64 << 63) | (r >> 1)) >> col };
            Op::Digest { h1, h2 }
        }),
    ]
}

/// Spot checks at large k (the u32 / u64 threshold arithmetic, k-proportional tables): few ops, each big.
/// lg_k 16..=18 run simulations over the whole cardinality range (every window offset); lg_k 19..=21 are bounded
/// by the number of coupons a case may cost (n <= 2^31: offsets up to ~9; thorough 2^35: up to ~13).
pub fn big_strategy(thorough: bool) -> impl Strategy<Value = Case> {
    let sim = |lo: u16, hi: u16| {
        (lo..=hi, any::<u64>(), proptest::bool::weighted(0.2), proptest::bool::weighted(0.2), proptest::bool::weighted(0.2))
            .prop_map(|(lg_n_x16, seed, warp, dups, swaps)| Op::Sim { lg_n_x16, seed, warp, dups, swaps })
    };
    let small_ops = || {
        prop_oneof![
            2 => (any::<u16>(), col_strategy()).prop_map(|(row, col)| Op::Coupon { row, col }),
            1 => any::<u64>().prop_map(Op::Key),
            1 => (1u16..=3000, any::<u64>()).prop_map(|(n, seed)| Op::Burst { n, seed }),
        ]
    };
    let hi_big: u16 = if thorough { 16 * 35 } else { 16 * 31 };
    let mid = (16u8..=18, seed_strategy(), proptest::collection::vec(prop_oneof![6 => sim(16 * 12, 16 * 60), 4 => small_ops()], 1..4))
        .prop_map(|(lg_k, seed, ops)| Case { lg_k, seed, ops });
    let big = (prop_oneof![1 => Just(19u8), 1 => Just(20u8), 3 => Just(21u8)], seed_strategy(), proptest::collection::vec(prop_oneof![6 => sim(16 * 15, hi_big), 4 => small_ops()], 1..4))
        .prop_map(|(lg_k, seed, ops)| Case { lg_k, seed, ops });
    prop_oneof![1 => mid, 1 => big]
}

pub fn case_strategy(min_lg: u8, max_lg: u8, max_ops: usize) -> impl Strategy<Value = Case> {
    (min_lg..=max_lg, seed_strategy(), proptest::collection::vec(op_strategy(), 1..max_ops))
        .prop_map(|(lg_k, seed, ops)| Case { lg_k, seed, ops })
}

/// Expand an op into coupons. Hashed keys go through the reference hash.
pub fn expand(op: &Op, lg_k: u8, seed: u64, out: &mut Vec<u32>) {
    match op {
        Op::Key(k) => out.push(refhash::cpc_row_col(&k.to_le_bytes(), seed, lg_k)),
        Op::Burst { n, seed: s } => {
            let mut sm = SplitMix(*s);
            for _ in 0..*n {
                out.push(refhash::cpc_row_col(&sm.next().to_le_bytes(), seed, lg_k));
            }
        }
        Op::Coupon { row, col } => {
            let r = ((*row as u32) << lg_k) >> 16;
            let mut rc = (r << 6) | (*col as u32 & 63);
            if rc == u32::MAX {
                rc ^= 1 << 6;
            }
            out.push(rc);
        }
        Op::Digest { h1, h2 } => out.push(refhash::cpc_row_col(&refhash::murmur3_preimage16(*h1, *h2, seed), seed, lg_k)),
        Op::ViaUnion => {}
        Op::Band { lo, width, n, seed: s } => {
            let k = 1u64 << lg_k;
            let lo_row = (*lo as u64 * k) >> 16;
            let w = ((*width as u64 * k) >> 16).max(1);
            let mut sm = SplitMix(*s);
            for _ in 0..*n {
                let row = (lo_row + sm.below(w)).min(k - 1) as u32;
                let col = (sm.next().leading_zeros().min(63)) as u32;
                let mut rc = (row << 6) | col;
                if rc == u32::MAX {
                    rc ^= 1 << 6;
                }
                out.push(rc);
            }
        }
        Op::Sim { lg_n_x16, seed: s, warp, dups, swaps } => {
            let n = (*lg_n_x16 as f64 / 16.0).exp2();
            let mut sm = SplitMix(*s ^ 0x51);
            let w = if *warp {
                let mut w = [1.0f64; 64];
                for x in w.iter_mut() {
                    *x = (sm.unit() * 4.0 - 2.0).exp2(); // [1/4, 4]
                }
                Some(w)
            } else {
                None
            };
            let mut v = simulate(lg_k, n, *s, w.as_ref());
            if *swaps && v.len() > 2 {
                for _ in 0..v.len() / 8 {
                    let i = sm.below(v.len() as u64 - 1) as usize;
                    v.swap(i, i + 1);
                }
            }
            if *dups && !v.is_empty() {
                let mut w2 = Vec::with_capacity(v.len() + v.len() / 8);
                for (i, &x) in v.iter().enumerate() {
                    w2.push(x);
                    if sm.below(8) == 0 {
                        w2.push(v[sm.below(i as u64 + 1) as usize]);
                    }
                }
                v = w2;
            }
            for rc in v.iter_mut() {
                if *rc == u32::MAX {
                    *rc ^= 1 << 6;
                }
            }
            out.extend(v);
        }
    }
}

pub fn check_state(sk: &CpcSketch, m: &CpcModel, full: bool, ctx: &str) -> Result<(), Fail> {
    let lg_k = m.lg_k;
    ensure!(
        sk.num_coupons() as u64 == m.c,
        "C05.num_coupons",
        "{ctx}: num_coupons {} but {} distinct (row, col) pairs",
        sk.num_coupons(),
        m.c
    );
    ensure!(sk.is_empty() == (m.c == 0), "C05.is_empty", "{ctx}: is_empty {}", sk.is_empty());
    let st = sk.verif_state();
    let want_off = correct_offset(lg_k, m.c);
    ensure!(
        st.window_offset == want_off,
        "C05.window_offset",
        "{ctx}: window offset {} but C = {} at lg_k {} requires {}",
        st.window_offset,
        m.c,
        lg_k,
        want_off
    );
    let want_fl = flavor(lg_k, m.c);
    ensure!(
        st.flavor == want_fl,
        "C05.flavor",
        "{ctx}: flavor {} but C = {} at lg_k {} is flavor {}",
        st.flavor,
        m.c,
        lg_k,
        want_fl
    );
    ensure!(
        st.has_window == (want_fl >= 2),
        "C05.window_allocation",
        "{ctx}: sliding window allocated = {} in flavor {}",
        st.has_window,
        want_fl
    );
    // every column below first_interesting_column is ignored by updates: it must be full
    for col in 0..st.first_interesting_column.min(64) {
        ensure!(
            m.col_cnt[col as usize] as u64 == m.k(),
            "C05.first_interesting_column",
            "{ctx}: first_interesting_column {} but column {} has only {} of {} bits set",
            st.first_interesting_column,
            col,
            m.col_cnt[col as usize],
            m.k()
        );
    }
    if !st.merge_flag {
        let want = m.kxp();
        let tol = if lg_k > 14 { 1e-7 } else { 1e-9 };
        ensure!(
            (st.kxp - want).abs() <= tol * want.abs().max(1e-300),
            "C05.kxp",
            "{ctx}: kxp {} but sum over unset bits is {} (C = {}, offset {})",
            st.kxp,
            want,
            m.c,
            st.window_offset
        );
        ensure!(
            st.hip_est_accum.is_finite() && st.hip_est_accum >= m.c as f64 * (1.0 - 1e-12),
            "C05.hip_accum",
            "{ctx}: hip accumulator {} with {} coupons",
            st.hip_est_accum,
            m.c
        );
    }
    if full {
        ensure!(sk.validate(), "C05.validate", "{ctx}: validate() is false");
        let mat = sk.verif_bit_matrix();
        if mat != m.rows {
            let i = (0..m.rows.len()).find(|&i| mat.get(i) != m.rows.get(i)).unwrap_or(0);
            fail!(
                "C05.matrix",
                "{ctx}: row {i} is {:#018x} but the model has {:#018x} (C = {}, offset {}, flavor {})",
                mat.get(i).copied().unwrap_or(0),
                m.rows[i],
                m.c,
                st.window_offset,
                st.flavor
            );
        }
        let want_s = m.surprises(want_off, want_fl >= 2);
        ensure!(
            st.table_entries as u64 == want_s,
            "C05.surprising_values",
            "{ctx}: pair table holds {} entries but the matrix has {} surprising values",
            st.table_entries,
            want_s
        );
    }
    Ok(())
}

pub fn run_case(c: &Case, info: &mut CaseInfo) -> Result<(), Fail> {
    let lg_k = c.lg_k;
    let mut sk = CpcSketch::with_seed(lg_k, c.seed);
    let mut m = CpcModel::new(lg_k);
    let mut skipped = 0u64;
    let mut max_off = 0u8;
    let mut flavors = std::collections::BTreeSet::new();
    let mut checks = 0u64;
    let mut offered = 0u64;
    info.label(format!("lg_k={lg_k}"));
    check_state(&sk, &m, true, "fresh sketch")?;
    for (i, op) in c.ops.iter().enumerate() {
        if matches!(op, Op::ViaUnion) {
            let mut u = datasketches::cpc::CpcUnion::with_seed(lg_k, c.seed);
            u.update(&sk);
            sk = u.to_sketch();
            info.label("via_union");
            check_state(&sk, &m, true, &format!("after op #{i} ViaUnion"))?;
            continue;
        }
        let mut cs = vec![];
        expand(op, lg_k, c.seed, &mut cs);
        let hashed = matches!(op, Op::Key(_) | Op::Burst { .. } | Op::Digest { .. });
        // hashed ops go through the public update() in one piece
        if hashed {
            match op {
                Op::Key(k) => sk.update(*k),
                Op::Burst { n, seed } => {
                    let mut sm = SplitMix(*seed);
                    for _ in 0..*n {
                        sk.update(sm.next());
                    }
                }
                Op::Digest { h1, h2 } => sk.update(refhash::u128_item_for(*h1, *h2, c.seed)),
                _ => unreachable!(),
            }
            for &rc in &cs {
                m.offer(rc);
            }
            offered += cs.len() as u64;
            checks += 1;
            check_state(&sk, &m, true, &format!("after op #{i} {op:?}"))?;
        } else {
            for (j, &rc) in cs.iter().enumerate() {
                if !m.fits_capacity(rc) {
                    skipped += 1;
                    continue;
                }
                let f_pre = flavor(lg_k, m.c);
                let o_pre = correct_offset(lg_k, m.c);
                let novel = m.offer(rc);
                sk.verif_row_col_update(rc);
                offered += 1;
                let f_post = flavor(lg_k, m.c);
                let o_post = correct_offset(lg_k, m.c);
                let transition = f_pre != f_post || o_pre != o_post;
                if transition {
                    flavors.insert(f_post);
                    max_off = max_off.max(o_post);
                }
                let full = transition
                    || offered <= 64
                    || offered.is_power_of_two()
                    || j + 1 == cs.len()
                    || (lg_k <= 8 && offered % 16 == 0)
                    || (lg_k <= 11 && offered % 512 == 0);
                // at large k the per-coupon (cheap) comparison is sampled: every 32nd novel coupon
                if full || (novel && (lg_k <= 14 || m.c % 32 == 0)) {
                    // cheap checks on every novel coupon, the matrix comparison on `full`
                    if full {
                        checks += 1;
                    }
                    check_state(&sk, &m, full, &format!("after op #{i} {op:?} coupon #{j} = {rc:#x}"))?;
                }
            }
        }
        flavors.insert(flavor(lg_k, m.c));
        max_off = max_off.max(correct_offset(lg_k, m.c));
    }
    for f in &flavors {
        info.label(format!("flavor={}", ["Empty", "Sparse", "Hybrid", "Pinned", "Sliding"][*f as usize]));
    }
    if max_off >= 8 {
        info.label("offset>=8");
    }
    if max_off >= 32 {
        info.label("offset>=32");
    }
    if max_off >= 50 {
        info.label("offset>=50");
    }
    if skipped > 0 {
        info.label("capacity_redraws");
    }
    info.sum("matrix_checks", checks as f64);
    info.sum("coupons", offered as f64);
    info.sum("skipped_for_capacity", skipped as f64);
    info.nontrivial = max_off >= 8 || flavors.len() >= 3;
    Ok(())
}

/// Sparse-flavor spot check at lg_k 22..=26, where a k x 64 matrix model would need up to 512 MB: the model is the
/// set of distinct coupons plus per-column counts (enough for num_coupons, flavor, offset, kxp, the table census).
pub fn sparse_big_strategy() -> impl Strategy<Value = Case> {
    let op = prop_oneof![
        // (no arrival-time simulation here: it walks all k rows of every column)
        3 => (any::<u16>(), col_strategy()).prop_map(|(row, col)| Op::Coupon { row, col }),
        2 => any::<u64>().prop_map(Op::Key),
        3 => (prop_oneof![1u16..=300, 300u16..=65535], any::<u64>()).prop_map(|(n, seed)| Op::Burst { n, seed }),
    ];
    (prop_oneof![1 => 22u8..=25, 2 => Just(26u8)], seed_strategy(), proptest::collection::vec(op, 1..6)).prop_map(|(lg_k, seed, ops)| Case { lg_k, seed, ops })
}

/// Thorough tier, once per run: lg_k 24 filled column by column (rows in a scattered order) past 2^29 coupons, where
/// 8 * C no longer fits 32 bits: coupon count, flavor and window offset against the formulas at every column
/// boundary, every power of two and every window move. No matrix model (it would need 128 MB; the columns are full).
fn column_fill_lg24() -> Result<u64, Fail> {
    let lg_k = 24u8;
    let k = 1u64 << lg_k;
    let mut sk = CpcSketch::new(lg_k);
    let mut c = 0u64;
    let target = (33 * k) + k / 2; // window offset 31
    let mut last_off = 0u8;
    'outer: for col in 0..64u32 {
        for i in 0..k {
            let row = (i.wrapping_mul(0x9E37_79B1) & (k - 1)) as u32;
            sk.verif_row_col_update((row << 6) | col);
            c += 1;
            let want_off = correct_offset(lg_k, c);
            if want_off != last_off || c.is_power_of_two() || i + 1 == k {
                let st = sk.verif_state();
                ensure!(sk.num_coupons() as u64 == c, "C05.num_coupons", "lg_k 24 column fill: num_coupons {} after {c} distinct coupons", sk.num_coupons());
                ensure!(st.window_offset == want_off, "C05.window_offset", "lg_k 24 column fill: window offset {} but C = {c} requires {want_off}", st.window_offset);
                ensure!(st.flavor == flavor(lg_k, c), "C05.flavor", "lg_k 24 column fill: flavor {} but C = {c} is flavor {}", st.flavor, flavor(lg_k, c));
                last_off = want_off;
            }
            if c >= target {
                break 'outer;
            }
        }
    }
    Ok(c)
}

pub fn run_sparse_big(c: &Case, info: &mut CaseInfo) -> Result<(), Fail> {
    static FILL_DONE: std::sync::atomic::AtomicBool = std::sync::atomic::AtomicBool::new(false);
    if std::env::var("VERIF_TIER_HINT").map(|t| t == "thorough").unwrap_or(false) && !FILL_DONE.swap(true, std::sync::atomic::Ordering::SeqCst) {
        let n = column_fill_lg24()?;
        info.label("lg_k24_column_fill");
        info.sum("column_fill_coupons", n as f64);
    }
    let lg_k = c.lg_k;
    let k = 1u64 << lg_k;
    let mut sk = CpcSketch::with_seed(lg_k, c.seed);
    let mut set = std::collections::HashSet::<u32>::new();
    let mut col_cnt = [0u64; 64];
    info.label(format!("lg_k={lg_k}"));
    let check = |sk: &CpcSketch, set: &std::collections::HashSet<u32>, col_cnt: &[u64; 64], ctx: &str| -> Result<(), Fail> {
        let cnt = set.len() as u64;
        ensure!(sk.num_coupons() as u64 == cnt, "C05.num_coupons", "{ctx}: num_coupons {} but {cnt} distinct (row, col) pairs", sk.num_coupons());
        ensure!(sk.is_empty() == (cnt == 0), "C05.is_empty", "{ctx}: is_empty {}", sk.is_empty());
        let st = sk.verif_state();
        ensure!(st.flavor == flavor(lg_k, cnt), "C05.flavor", "{ctx}: flavor {} but C = {cnt} at lg_k {lg_k} is flavor {}", st.flavor, flavor(lg_k, cnt));
        ensure!(st.window_offset == 0 && !st.has_window, "C05.window_offset", "{ctx}: window offset {} / window allocated {} in a sparse sketch", st.window_offset, st.has_window);
        ensure!(st.table_entries as u64 == cnt, "C05.surprising_values", "{ctx}: pair table holds {} entries, {cnt} coupons", st.table_entries);
        let mut want = 0.0f64;
        for col in (0..64usize).rev() {
            want += (k - col_cnt[col]) as f64 * f64::from_bits((1022 - col as u64) << 52);
        }
        ensure!((st.kxp - want).abs() <= 1e-7 * want, "C05.kxp", "{ctx}: kxp {} but sum over unset bits is {want}", st.kxp);
        ensure!(st.hip_est_accum.is_finite() && st.hip_est_accum >= cnt as f64 * (1.0 - 1e-12), "C05.hip_accum", "{ctx}: hip accumulator {} with {cnt} coupons", st.hip_est_accum);
        Ok(())
    };
    check(&sk, &set, &col_cnt, "fresh sketch")?;
    let limit = 3 * k / 32 - 8; // stay in the sparse flavor
    for (i, op) in c.ops.iter().enumerate() {
        let mut cs = vec![];
        expand(op, lg_k, c.seed, &mut cs);
        let mut burst = SplitMix(if let Op::Burst { seed, .. } = op { *seed } else { 0 });
        for (j, &rc) in cs.iter().enumerate() {
            if set.len() as u64 >= limit {
                break;
            }
            match op {
                Op::Key(key) => sk.update(*key),
                // the j-th key of the burst (same expansion as `expand`)
                Op::Burst { .. } => sk.update(burst.next()),
                _ => sk.verif_row_col_update(rc),
            }
            if set.insert(rc) {
                col_cnt[(rc & 63) as usize] += 1;
            }
            if j < 8 || (j + 1).is_power_of_two() || j + 1 == cs.len() {
                check(&sk, &set, &col_cnt, &format!("after op #{i} {op:?} coupon #{j} = {rc:#x}"))?;
            }
        }
        // the image of a sparse sketch of this k decodes to the same coupons
        let bytes = sk.serialize();
        let back = CpcSketch::deserialize_with_seed(&bytes, c.seed).map_err(|e| Fail { clause: "C05.big.roundtrip".into(), detail: format!("after op #{i}: own image rejected: {e}") })?;
        check(&back, &set, &col_cnt, &format!("round-tripped after op #{i}"))?;
        ensure!(back.estimate() == sk.estimate(), "C05.big.roundtrip", "after op #{i}: estimate {} -> {}", sk.estimate(), back.estimate());
    }
    info.sum("coupons", set.len() as f64);
    info.nontrivial = set.len() >= 64;
    Ok(())
}

pub fn def() -> PropDef {
    PropDef {
        id: "C05",
        assumptions: vec![
            "row = h1 & (k-1), col = min(63, lz(h2)) from the reference MurmurHash3",
            "flavor / window-offset thresholds as published (C vs 3K/32, K/2, 27K/8; offset = floor((8C-19K)/8K))",
            "coupon streams respect the structural capacity of the surprising-value table (3/4 * 2^(lg_k+5) entries, shared with Java/C++); violating coupons are redrawn and counted",
            "crafted coupons enter through CpcSketch::verif_row_col_update; the matrix is read through verif_bit_matrix",
        ],
        subs: vec![
            Box::new(PropSub {
                name: "stream_vs_matrix",
                rule: "lg_k 4..=10, seeds; ops = hashed keys / bursts through update(), crafted (row, col) coupons (geometric, uniform and boundary columns), exact arrival-time simulations up to cardinality 2^60 (optionally with per-column time warps in [1/4,4], local swaps, duplicates); after every novel coupon: num_coupons, flavor, window offset, first_interesting_column safety, kxp, hip; full matrix + validate() + pair-table census at every flavor change / window move / power of two / periodic. non-trivial = window offset >= 8 reached or >= 3 flavors crossed",
                cases_quick: 20_000,
                cases_thorough: 300_000,
                max_shrink_iters: 1500,
                limit_factor: 1,
                strategy: || case_strategy(4, 10, 12),
                check: run_case,
            }),
            Box::new(PropSub {
                name: "stream_vs_matrix_lg11_12",
                rule: "same generator at lg_k 11..=12",
                cases_quick: 1_200,
                cases_thorough: 20_000,
                max_shrink_iters: 600,
                limit_factor: 1,
                strategy: || case_strategy(11, 12, 8),
                check: run_case,
            }),
            Box::new(PropSub {
                name: "stream_vs_matrix_lg16_21",
                rule: "spot checks at large k: lg_k 16..=18 with exact arrival-time simulations over the whole cardinality range (every flavor, window offsets up to 56) and lg_k 19..=21 (mostly 21) with simulations up to cardinality 2^31 (thorough 2^35; window offsets up to ~9 / ~13; bounded by coupons per case); 1..3 ops per case; same state comparison (full matrix at every flavor change / window move / power of two / first 64 coupons / end of op; the cheap per-coupon comparison sampled every 32nd novel coupon)",
                cases_quick: 6,
                cases_thorough: 200,
                max_shrink_iters: 6,
                limit_factor: 6,
                strategy: || big_strategy(std::env::var("VERIF_TIER_HINT").map(|t| t == "thorough").unwrap_or(false)),
                check: run_case,
            }),
            Box::new(PropSub {
                name: "sparse_lg22_26",
                rule: "spot checks at lg_k 22..=26 (mostly 26) in the sparse flavor (a full matrix model would need up to 512 MB): hashed keys, bursts of up to 65535 keys through update() and crafted coupons against the set of distinct coupons + per-column counts: num_coupons, flavor, no window, table census, kxp, hip accumulator, and the same after a serialize / deserialize round trip; thorough tier: once per run lg_k 24 is filled column by column past 2^29 coupons (8 C beyond 32 bits) with count / flavor / offset checked at every window move. non-trivial = at least 64 distinct coupons",
                cases_quick: 2_000,
                cases_thorough: 40_000,
                max_shrink_iters: 100,
                limit_factor: 4,
                strategy: sparse_big_strategy,
                check: run_sparse_big,
            }),
        ],
        post: None,
    }
}
