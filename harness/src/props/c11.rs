//! C11 - serialize then deserialize is lossless for every sketch family.

use super::{c08, c09, ser_hll, ser_misc, ser_theta, PropDef};
use crate::kit::runner::PropSub;

pub fn def() -> PropDef {
    PropDef {
        id: "C11",
        assumptions: vec![
            "states are reached by the generators of C02-C10 (histories, crafted coupons, arrival simulations, shaped streams) and, for compact theta, through independently encoded v3 images with arbitrary entry sets",
            "equality is observed through every public accessor, the verif-hooks state dumps (HLL, CPC) and byte comparison of re-serialized images (Hll4 aux order and Frequent Items row order compared as sets)",
        ],
        subs: vec![
            Box::new(PropSub {
                name: "hll",
                rule: "C02 histories (lg_k 4..=14, 21; all three types; optionally taken through a union to get out-of-order arrays); d = deserialize(serialize(s)): full internal state, estimate and bounds bit-equal, re-serialized bytes equal (aux order as a set), then both continue through a generated batch of updates and a union and must stay equal. non-trivial = past list mode",
                cases_quick: 30_000,
                cases_thorough: 150_000,
                max_shrink_iters: 2000,
                limit_factor: 1,
                strategy: ser_hll::case_strategy,
                check: ser_hll::roundtrip,
            }),
            Box::new(PropSub {
                name: "theta_compact",
                rule: "compact sketches from update sketches (lg_k 5..=10, sampling, seeds, ordered or not) and from independently encoded v3 images with arbitrary sorted entry sets (0..=4100 entries, every length mod 8, delta widths 1..63 bits, exact or estimating, ordered or rotated); uncompressed and compressed forms both deserialize to the same entries / theta / flags / estimates, re-serialize byte-identically, and agree with each other. non-trivial = more than one entry",
                cases_quick: 200_000,
                cases_thorough: 600_000,
                max_shrink_iters: 2000,
                limit_factor: 1,
                strategy: ser_theta::case_strategy,
                check: ser_theta::roundtrip,
            }),
            Box::new(PropSub {
                name: "cpc",
                rule: "C05 streams (lg_k 4..=12, every flavor and window offset, optionally through a union = merged flag); deserialized sketch has the same matrix, internal state, estimates (bit-equal), bytes; CpcWrapper agrees; both continue with more coupons and a union. non-trivial = flavor >= Hybrid",
                cases_quick: 30_000,
                cases_thorough: 120_000,
                max_shrink_iters: 1000,
                limit_factor: 1,
                strategy: ser_misc::cpc_case,
                check: ser_misc::cpc_roundtrip,
            }),
            Box::new(PropSub {
                name: "cpc_every_coupon_count",
                rule: "the image after EVERY coupon count: exact arrival-time streams at lg_k 4..=12 fed one coupon at a time up to C = 3.75 k .. 31 k (every flavor threshold, the first window moves, every pseudo-phase boundary), directly or through a union; read back by the crate: matrix, state, estimate, CpcWrapper. non-trivial = reached the Pinned flavor",
                cases_quick: 48,
                cases_thorough: 1_000,
                max_shrink_iters: 30,
                limit_factor: 3,
                strategy: ser_misc::cpc_sweep_case,
                check: ser_misc::cpc_sweep_roundtrip,
            }),
            Box::new(PropSub {
                name: "frequent_items",
                rule: "i64 / u64 / String sketches of map size 8..=512 after shaped weighted runs (incl. purges that empty the sketch); deserialized copy answers lb / estimate / ub for every item of the domain, total_weight, maximum_error, frequent_items rows identically; re-serialized image encodes the same state; both continue with updates and are merged into fresh sketches. non-trivial = purged",
                cases_quick: 60_000,
                cases_thorough: 150_000,
                max_shrink_iters: 2000,
                limit_factor: 1,
                strategy: ser_misc::fi_case,
                check: ser_misc::fi_roundtrip,
            }),
            Box::new(PropSub {
                name: "tdigest",
                rule: "k 10..=500, shaped runs; deserialized digest answers 180 rank / quantile queries bit-identically, re-serializes byte-identically, and stays byte-identical through further updates and a merge (exercises the stored merge-direction flag). non-trivial = more than one value",
                cases_quick: 60_000,
                cases_thorough: 150_000,
                max_shrink_iters: 1000,
                limit_factor: 1,
                strategy: ser_misc::td_case,
                check: ser_misc::td_roundtrip,
            }),
            Box::new(PropSub {
                name: "countmin",
                rule: "all eight counter types, random configurations, totals up to the type maximum; deserialized sketch == original (PartialEq), same bytes, same estimates, same behaviour under update and merge",
                cases_quick: 60_000,
                cases_thorough: 150_000,
                max_shrink_iters: 1000,
                limit_factor: 1,
                strategy: c08::case_strategy,
                check: ser_misc::cm_roundtrip,
            }),
            Box::new(PropSub {
                name: "bloom",
                rule: "random sizes (incl. non-multiples of 64) / hash counts / seeds; deserialized filter == original, same bytes, no inserted key lost, same answers and behaviour under insert / union / invert",
                cases_quick: 60_000,
                cases_thorough: 150_000,
                max_shrink_iters: 1000,
                limit_factor: 1,
                strategy: c09::case_strategy,
                check: ser_misc::bloom_roundtrip,
            }),
        ],
        post: None,
    }
}
