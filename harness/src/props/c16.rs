//! C16 - hashes are bit-exact MurmurHash3 / XXH64 and independent of write chunking.

use super::PropDef;
use crate::kit::refhash::{self, Recorder};
use crate::kit::runner::{CaseInfo, Fail, PropSub};
use datasketches::bloom::BloomFilterBuilder;
use datasketches::countmin::CountMinSketch;
use datasketches::cpc::CpcSketch;
use datasketches::hll::{HllSketch, HllType};
use datasketches::theta::ThetaSketch;
use datasketches::verif as hook;
use proptest::prelude::*;
use serde::{Deserialize, Serialize};

#[derive(Debug, Clone, Serialize, Deserialize)]
pub struct DigestCase {
    pub bytes: Vec<u8>,
    pub seed: u64,
    /// cut points as u16 fractions of the length (mapped monotonically), duplicates = empty chunks
    pub cuts: Vec<u16>,
    /// write every byte separately
    pub bytewise: bool,
}

pub fn seed_strategy() -> impl Strategy<Value = u64> {
    prop_oneof![
        2 => Just(0u64),
        2 => Just(9001u64),
        2 => Just(u64::MAX),
        1 => Just(1u64),
        4 => any::<u64>(),
    ]
}

fn digest_case() -> impl Strategy<Value = DigestCase> {
    (
        (0usize..=200).prop_flat_map(|n| proptest::collection::vec(any::<u8>(), n)),
        seed_strategy(),
        proptest::collection::vec(any::<u16>(), 0..10),
        proptest::bool::weighted(0.1),
    )
        .prop_map(|(bytes, seed, cuts, bytewise)| DigestCase { bytes, seed, cuts, bytewise })
}

pub fn cut_points(len: usize, cuts: &[u16], bytewise: bool) -> Vec<usize> {
    if bytewise {
        return (1..len).collect();
    }
    let mut v: Vec<usize> = cuts.iter().map(|&c| ((c as usize) * (len + 1)) >> 16).collect();
    v.sort_unstable();
    v
}

fn chunks<'a>(bytes: &'a [u8], cuts: &[usize]) -> Vec<&'a [u8]> {
    let mut out = vec![];
    let mut prev = 0;
    for &c in cuts {
        out.push(&bytes[prev..c]);
        prev = c;
    }
    out.push(&bytes[prev..]);
    out
}

fn check_digests(bytes: &[u8], seed: u64, cuts: &[usize]) -> Result<(), Fail> {
    let ch = chunks(bytes, cuts);
    let want_m = refhash::murmur3_x64_128(bytes, seed);
    let got_m = hook::murmur3_x64_128(seed, &ch);
    ensure!(
        got_m == want_m,
        "C16.murmur.digest",
        "murmur3 len={} seed={seed:#x} cuts={cuts:?}: got {got_m:x?}, reference {want_m:x?}",
        bytes.len()
    );
    let got_mp = hook::murmur3_x64_128_probing(seed, &ch);
    ensure!(
        got_mp == want_m,
        "C16.murmur.finish_disturbs_state",
        "murmur3 with finish128 between writes, len={} seed={seed:#x} cuts={cuts:?}: got {got_mp:x?}, reference {want_m:x?}",
        bytes.len()
    );
    let want_x = refhash::xxh64(bytes, seed);
    let got_x = hook::xxhash64(seed, &ch);
    ensure!(
        got_x == want_x,
        "C16.xxh64.digest",
        "xxh64 len={} seed={seed:#x} cuts={cuts:?}: got {got_x:x}, reference {want_x:x}",
        bytes.len()
    );
    let got_xp = hook::xxhash64_probing(seed, &ch);
    ensure!(
        got_xp == want_x,
        "C16.xxh64.finish_disturbs_state",
        "xxh64 with finish64 between writes, len={} seed={seed:#x} cuts={cuts:?}: got {got_xp:x}, reference {want_x:x}",
        bytes.len()
    );
    Ok(())
}

fn digest_random(c: &DigestCase, info: &mut CaseInfo) -> Result<(), Fail> {
    let cuts = cut_points(c.bytes.len(), &c.cuts, c.bytewise);
    let len = c.bytes.len();
    let interior: Vec<usize> = cuts.iter().copied().filter(|&x| x > 0 && x < len).collect();
    info.nontrivial = interior.iter().any(|x| x % 16 != 0);
    info.label(format!("len%16={}", len % 16));
    if len >= 32 {
        info.label("len>=32");
    }
    if interior.len() >= 2 {
        info.label("chunks>=3");
    }
    if cuts.windows(2).any(|w| w[0] == w[1]) || cuts.first() == Some(&0) || cuts.last() == Some(&len) {
        info.label("has_empty_chunk");
    }
    check_digests(&c.bytes, c.seed, &cuts)
}

#[derive(Debug, Clone, Serialize, Deserialize)]
pub struct ExhCase {
    pub prefix: Vec<u8>,
    pub window: Vec<u8>,
    pub suffix: Vec<u8>,
    pub seed: u64,
}

fn exh_case() -> impl Strategy<Value = ExhCase> {
    (
        (0usize..=40).prop_flat_map(|n| proptest::collection::vec(any::<u8>(), n)),
        (1usize..=12).prop_flat_map(|n| proptest::collection::vec(any::<u8>(), n)),
        (0usize..=40).prop_flat_map(|n| proptest::collection::vec(any::<u8>(), n)),
        seed_strategy(),
    )
        .prop_map(|(prefix, window, suffix, seed)| ExhCase { prefix, window, suffix, seed })
}

/// All 2^(n-1) compositions of the window (n <= 12), with prefix and suffix as single writes.
fn digest_exhaustive(c: &ExhCase, info: &mut CaseInfo) -> Result<(), Fail> {
    let n = c.window.len();
    let mut bytes = c.prefix.clone();
    bytes.extend_from_slice(&c.window);
    bytes.extend_from_slice(&c.suffix);
    let p = c.prefix.len();
    info.nontrivial = n >= 2;
    info.label(format!("window={n}"));
    info.sum("chunkings", (1u64 << (n - 1)) as f64);
    for mask in 0u32..(1u32 << (n - 1)) {
        let mut cuts = vec![];
        if p > 0 {
            cuts.push(p);
        }
        for b in 0..(n - 1) {
            if mask & (1 << b) != 0 {
                cuts.push(p + b + 1);
            }
        }
        if !c.suffix.is_empty() {
            cuts.push(p + n);
        }
        check_digests(&bytes, c.seed, &cuts)?;
    }
    Ok(())
}

/// Items of several `Hash` shapes.
#[derive(Debug, Clone, Serialize, Deserialize)]
pub enum Item {
    U64(u64),
    I32(i32),
    Str(String),
    Bytes(Vec<u8>),
    Pair(u64, String),
    Chunked(Vec<u8>, Vec<u16>),
    // every integer width and the std shapes that reach the hasher through the typed `write_*` methods
    U8(u8),
    U16(u16),
    U32(u32),
    I64(i64),
    Usize(u32),
    /// u128 / i128 as (high, low) halves (serde_json values cannot carry 128-bit numbers)
    U128(u64, u64),
    I128(u64, u64),
    Bool(bool),
    Char(u32),
    /// (u8, u128, i16)
    Mixed(u8, u64, u64, i16),
    VecU64(Vec<u64>),
    OptU32(Option<u32>),
}

pub fn item_strategy() -> impl Strategy<Value = Item> {
    prop_oneof![
        any::<u64>().prop_map(Item::U64),
        any::<i32>().prop_map(Item::I32),
        "[ -~]{0,40}".prop_map(Item::Str),
        proptest::collection::vec(any::<u8>(), 0..70).prop_map(Item::Bytes),
        (any::<u64>(), "[a-z]{0,20}").prop_map(|(a, b)| Item::Pair(a, b)),
        (proptest::collection::vec(any::<u8>(), 0..100), proptest::collection::vec(any::<u16>(), 0..6))
            .prop_map(|(b, c)| Item::Chunked(b, c)),
        prop_oneof![
            any::<u8>().prop_map(Item::U8),
            any::<u16>().prop_map(Item::U16),
            any::<u32>().prop_map(Item::U32),
            any::<i64>().prop_map(Item::I64),
            any::<u32>().prop_map(Item::Usize),
            any::<bool>().prop_map(Item::Bool),
        ],
        prop_oneof![
            (any::<u64>(), any::<u64>()).prop_map(|(a, b)| Item::U128(a, b)),
            (any::<u64>(), any::<u64>()).prop_map(|(a, b)| Item::I128(a, b)),
            (any::<u8>(), any::<u64>(), any::<u64>(), any::<i16>()).prop_map(|(a, b, c, d)| Item::Mixed(a, b, c, d)),
        ],
        prop_oneof![
            any::<u32>().prop_map(Item::Char),
            proptest::collection::vec(any::<u64>(), 0..9).prop_map(Item::VecU64),
            proptest::option::of(any::<u32>()).prop_map(Item::OptU32),
        ],
    ]
}

/// Calls `f` with the item as a `&dyn`-free generic Hash value (macro instead of trait objects,
/// because `Hash` is not object safe).
#[macro_export]
macro_rules! with_item {
    ($item:expr, |$v:ident| $body:expr) => {
        match $item {
            $crate::props::c16::Item::U64(x) => {
                let $v = *x;
                $body
            }
            $crate::props::c16::Item::I32(x) => {
                let $v = *x;
                $body
            }
            $crate::props::c16::Item::Str(x) => {
                let $v = x.as_str();
                $body
            }
            $crate::props::c16::Item::Bytes(x) => {
                let $v = x.as_slice();
                $body
            }
            $crate::props::c16::Item::Pair(a, b) => {
                let $v = (*a, b.as_str());
                $body
            }
            $crate::props::c16::Item::Chunked(b, c) => {
                let cuts = $crate::props::c16::cut_points(b.len(), c, false);
                let $v = $crate::kit::refhash::Chunked { bytes: b.as_slice(), cuts: &cuts };
                $body
            }
            $crate::props::c16::Item::U8(x) => {
                let $v = *x;
                $body
            }
            $crate::props::c16::Item::U16(x) => {
                let $v = *x;
                $body
            }
            $crate::props::c16::Item::U32(x) => {
                let $v = *x;
                $body
            }
            $crate::props::c16::Item::I64(x) => {
                let $v = *x;
                $body
            }
            $crate::props::c16::Item::Usize(x) => {
                let $v = *x as usize;
                $body
            }
            $crate::props::c16::Item::U128(a, b) => {
                let $v = ((*a as u128) << 64) | *b as u128;
                $body
            }
            $crate::props::c16::Item::I128(a, b) => {
                let $v = (((*a as u128) << 64) | *b as u128) as i128;
                $body
            }
            $crate::props::c16::Item::Bool(x) => {
                let $v = *x;
                $body
            }
            $crate::props::c16::Item::Char(x) => {
                let $v = char::from_u32(*x % 0x11_0000).unwrap_or('\u{fffd}');
                $body
            }
            $crate::props::c16::Item::Mixed(a, b, c, d) => {
                let $v = (*a, ((*b as u128) << 64) | *c as u128, *d);
                $body
            }
            $crate::props::c16::Item::VecU64(x) => {
                let $v = x.clone();
                $body
            }
            $crate::props::c16::Item::OptU32(x) => {
                let $v = *x;
                $body
            }
        }
    };
}

pub fn item_bytes(item: &Item) -> Vec<u8> {
    with_item!(item, |v| Recorder::bytes_of(&v))
}

#[derive(Debug, Clone, Serialize, Deserialize)]
pub struct DerivedCase {
    pub item: Item,
    pub seed: u64,
    pub lg_k: u8,
    pub cm_hashes: u8,
    pub cm_buckets: u32,
    pub bloom_bits: u64,
    pub bloom_hashes: u16,
}

fn derived_case() -> impl Strategy<Value = DerivedCase> {
    (
        item_strategy(),
        seed_strategy().prop_filter("seed hash must be non-zero (documented precondition)", |s| {
            refhash::seed_hash(*s) != 0
        }),
        4u8..=14,
        1u8..=8,
        3u32..=512,
        1u64..=5000,
        1u16..=16,
    )
        .prop_map(|(item, seed, lg_k, cm_hashes, cm_buckets, bloom_bits, bloom_hashes)| DerivedCase {
            item,
            seed,
            lg_k,
            cm_hashes,
            cm_buckets,
            bloom_bits,
            bloom_hashes,
        })
}

fn derived(c: &DerivedCase, info: &mut CaseInfo) -> Result<(), Fail> {
    let bytes = item_bytes(&c.item);
    info.nontrivial = true;
    info.label(match &c.item {
        Item::U64(_) => "item=u64",
        Item::I32(_) => "item=i32",
        Item::Str(_) => "item=str",
        Item::Bytes(_) => "item=bytes",
        Item::Pair(..) => "item=tuple",
        Item::Chunked(..) => "item=chunked",
        Item::U8(_) | Item::U16(_) | Item::U32(_) | Item::I64(_) | Item::Usize(_) | Item::Bool(_) => "item=other_int",
        Item::U128(..) | Item::I128(..) | Item::Mixed(..) => "item=128bit",
        Item::Char(_) | Item::VecU64(_) | Item::OptU32(_) => "item=std_shape",
    });

    // seed hash (compact theta image bytes 6..8, CPC image bytes 6..8, Count-Min image bytes 13..15)
    let want_sh = refhash::seed_hash(c.seed);
    ensure!(
        hook::seed_hash(c.seed) == want_sh,
        "C16.seed_hash",
        "seed {:#x}: crate {} reference {}",
        c.seed,
        hook::seed_hash(c.seed),
        want_sh
    );

    // theta
    let theta_lg = c.lg_k.max(5);
    let mut t = ThetaSketch::builder().lg_k(theta_lg).seed(c.seed).build();
    with_item!(&c.item, |v| t.update(v));
    let want = refhash::theta_hash(&bytes, c.seed);
    let got: Vec<u64> = t.iter().collect();
    if want == 0 {
        ensure!(got.is_empty(), "C16.theta.hash", "hash 0 must be ignored, got {got:?}");
    } else {
        ensure!(got == vec![want], "C16.theta.hash", "theta retained {got:x?}, reference {want:x}");
    }
    let img = t.compact(true).serialize();
    let sh = u16::from_le_bytes([img[6], img[7]]);
    ensure!(sh == want_sh, "C16.theta.seed_hash_in_image", "image seed hash {sh}, reference {want_sh}");
    ensure!(t.compact(true).seed_hash() == want_sh, "C16.theta.seed_hash", "CompactThetaSketch::seed_hash {} reference {want_sh}", t.compact(true).seed_hash());
    // a serial-version-1 image carries no seed hash: the sketch read from it belongs to the seed handed to the reader
    {
        let entries: Vec<u64> = if want == 0 { vec![] } else { vec![want] };
        let v1 = crate::spec::theta::encode_v1(&entries, crate::spec::theta::MAX_THETA);
        if let Ok(d) = datasketches::theta::CompactThetaSketch::deserialize_with_seed(&v1, c.seed) {
            ensure!(d.seed_hash() == want_sh, "C16.theta.seed_hash", "serial version 1 image read with seed {:#x}: seed_hash() {} reference {want_sh}", c.seed, d.seed_hash());
            let again = d.serialize();
            if again.len() >= 8 && !entries.is_empty() {
                let sh = u16::from_le_bytes([again[6], again[7]]);
                ensure!(sh == want_sh, "C16.theta.seed_hash_in_image", "re-serialized v1 image carries seed hash {sh}, reference {want_sh}");
            }
        } else {
            fail!("C16.theta.seed_hash", "valid serial version 1 image rejected under seed {:#x}", c.seed);
        }
    }

    // HLL (default seed only)
    for ty in [HllType::Hll4, HllType::Hll6, HllType::Hll8] {
        let mut h = HllSketch::new(c.lg_k, ty);
        with_item!(&c.item, |v| h.update(v));
        let want = refhash::hll_coupon(&bytes);
        let st = h.verif_state();
        let got: Vec<u32> = st.coupon_slots.iter().copied().filter(|&x| x != 0).collect();
        ensure!(got == vec![want], "C16.hll.coupon", "HLL coupon {got:x?}, reference {want:x}");
        let img = h.serialize();
        ensure!(
            img.len() == 12 && u32::from_le_bytes([img[8], img[9], img[10], img[11]]) == want,
            "C16.hll.coupon_in_image",
            "HLL list image {img:x?}, reference coupon {want:x}"
        );
    }

    // CPC
    let mut cp = CpcSketch::with_seed(c.lg_k, c.seed);
    with_item!(&c.item, |v| cp.update(v));
    let rc = refhash::cpc_row_col(&bytes, c.seed, c.lg_k);
    let m = cp.verif_bit_matrix();
    let mut want_m = vec![0u64; 1 << c.lg_k];
    want_m[(rc >> 6) as usize] |= 1u64 << (rc & 63);
    ensure!(m == want_m, "C16.cpc.row_col", "CPC matrix differs from reference row/col {:#x}", rc);

    // Count-Min
    let mut cm = CountMinSketch::<u64>::with_seed(c.cm_hashes, c.cm_buckets, c.seed);
    with_item!(&c.item, |v| cm.update_with_weight(v, 3));
    let img = cm.serialize();
    let cells: Vec<u64> = img[24..].chunks(8).map(|b| u64::from_le_bytes(b.try_into().unwrap())).collect();
    let mut want_cells = vec![0u64; c.cm_hashes as usize * c.cm_buckets as usize];
    for row in 0..c.cm_hashes as usize {
        let row_seed = refhash::murmur3_x64_128(&(row as u64).to_le_bytes(), c.seed).0;
        let b = (refhash::murmur3_x64_128(&bytes, row_seed).0 % c.cm_buckets as u64) as usize;
        want_cells[row * c.cm_buckets as usize + b] += 3;
    }
    ensure!(cells == want_cells, "C16.countmin.bucket", "Count-Min table differs from reference buckets");
    let sh = u16::from_le_bytes([img[13], img[14]]);
    ensure!(sh == want_sh, "C16.countmin.seed_hash_in_image", "image seed hash {sh}, reference {want_sh}");

    // Bloom
    let mut bf = BloomFilterBuilder::with_size(c.bloom_bits, c.bloom_hashes).seed(c.seed).build();
    with_item!(&c.item, |v| bf.insert(v));
    let cap = (c.bloom_bits.div_ceil(64) * 64) as u64;
    let h0 = refhash::xxh64(&bytes, c.seed);
    let h1 = refhash::xxh64(&bytes, h0);
    let mut want_bits = vec![0u64; (cap / 64) as usize];
    for i in 1..=c.bloom_hashes as u64 {
        let pos = (h0.wrapping_add(i.wrapping_mul(h1)) >> 1) % cap;
        want_bits[(pos / 64) as usize] |= 1 << (pos % 64);
    }
    let img = bf.serialize();
    let got_bits: Vec<u64> = img[32..].chunks(8).map(|b| u64::from_le_bytes(b.try_into().unwrap())).collect();
    ensure!(got_bits == want_bits, "C16.bloom.positions", "Bloom bit array differs from reference positions");
    Ok(())
}


// ---------------------------------------------------------------------------------------------
// boundary digests and float entry points

#[derive(Debug, Clone, Serialize, Deserialize)]
pub enum BoundaryItem {
    /// the u128 item whose MurmurHash3 digest under the default seed is exactly (h1, h2)
    Digest { h1: u64, h2: u64 },
    /// update_f64 with these bits
    F64(u64),
    /// update_f32 with these bits
    F32(u32),
}

#[derive(Debug, Clone, Serialize, Deserialize)]
pub struct BoundaryCase {
    pub item: BoundaryItem,
    pub lg_k: u8,
}

fn boundary_word() -> impl Strategy<Value = u64> {
    prop_oneof![
        3 => prop_oneof![Just(0u64), Just(1), Just(2), Just(3), Just(u64::MAX), Just(u64::MAX - 1), Just(1 << 63), Just((1 << 63) - 1), Just((1 << 63) + 1)],
        // exactly j leading zeros, random below
        4 => (0u32..=63, any::<u64>()).prop_map(|(j, r)| ((1u64 << 63) | (r >> 1)) >> j),
        // low-bit patterns (slot / row / address bits)
        2 => (any::<u64>(), 0u32..=32).prop_map(|(r, b)| r & !((1u64 << b) - 1)),
        2 => any::<u64>(),
    ]
}

fn boundary_case() -> impl Strategy<Value = BoundaryCase> {
    let f64bits = prop_oneof![
        3 => prop_oneof![Just(0u64), Just(1u64 << 63), Just(0x7ff8000000000000), Just(0xfff8000000000000), Just(0x7ff0000000000001), Just(0x7ff0000000000000), Just(0xfff0000000000000), Just(1), Just(0x8000000000000001), Just(0x3ff0000000000000)],
        1 => (any::<u64>()).prop_map(|m| 0x7ff0000000000000 | (m >> 12) | 1),
        2 => any::<u64>(),
    ];
    let f32bits = prop_oneof![
        3 => prop_oneof![Just(0u32), Just(1u32 << 31), Just(0x7fc00000), Just(0xffc00000), Just(0x7f800001), Just(0x7f800000), Just(0xff800000), Just(1), Just(0x3f800000)],
        2 => any::<u32>(),
    ];
    let item = prop_oneof![
        6 => (boundary_word(), boundary_word()).prop_map(|(h1, h2)| BoundaryItem::Digest { h1, h2 }),
        2 => f64bits.prop_map(BoundaryItem::F64),
        1 => f32bits.prop_map(BoundaryItem::F32),
    ];
    (item, 4u8..=14).prop_map(|(item, lg_k)| BoundaryCase { item, lg_k })
}

/// Java's canonical form of a double (`Double.doubleToLongBits(d == 0.0 ? 0.0 : d)`): one NaN, one zero.
fn canonical_bits(v: f64) -> u64 {
    if v.is_nan() {
        0x7ff8000000000000
    } else if v == 0.0 {
        0
    } else {
        v.to_bits()
    }
}

fn boundary(c: &BoundaryCase, info: &mut CaseInfo) -> Result<(), Fail> {
    info.nontrivial = true;
    // thorough tier, once per run: an item whose hashed byte stream is longer than 2^32 bytes (the length enters the
    // digest as a 64-bit quantity), fed in 1 MiB writes through the public update of a theta sketch
    static LONG_DONE: std::sync::atomic::AtomicBool = std::sync::atomic::AtomicBool::new(false);
    if std::env::var("VERIF_TIER_HINT").map(|t| t == "thorough").unwrap_or(false) && !LONG_DONE.swap(true, std::sync::atomic::Ordering::SeqCst) {
        let chunk: Vec<u8> = (0..1usize << 20).map(|i| (i as u8).wrapping_mul(31).wrapping_add((i >> 8) as u8)).collect();
        let tail = [7u8, 1, 2, 3, 4];
        let times = 4096u64;
        let item = refhash::Repeated { chunk: &chunk, times, tail: &tail };
        let mut t = ThetaSketch::builder().lg_k(5).build();
        t.update(&item);
        let mut st = refhash::Murmur3Stream::new(refhash::DEFAULT_SEED);
        for _ in 0..times {
            st.update(&chunk);
        }
        st.update(&tail);
        let want = st.finish().0 >> 1;
        let got: Vec<u64> = t.iter().collect();
        ensure!(got == vec![want], "C16.murmur.long_input", "item of 2^32 + 5 hashed bytes: theta retained {got:x?}, reference {want:x}");
        info.label("input_longer_than_2^32_bytes");
    }
    // the byte stream the reference derivations start from, and how the item enters each sketch
    enum Feed {
        U128(u128),
        F64(f64),
        F32(f32),
    }
    let (bytes, feed, what): (Vec<u8>, Feed, String) = match &c.item {
        BoundaryItem::Digest { h1, h2 } => {
            let it = refhash::u128_item_for(*h1, *h2, refhash::DEFAULT_SEED);
            let b = Recorder::bytes_of(&it);
            ensure!(refhash::murmur3_x64_128(&b, refhash::DEFAULT_SEED) == (*h1, *h2), "harness.preimage", "preimage of ({h1:#x}, {h2:#x}) does not hash back");
            info.label(format!("digest:h2_lz={}", h2.leading_zeros().min(64)));
            (b, Feed::U128(it), format!("u128 item with digest ({h1:#x}, {h2:#x})"))
        }
        BoundaryItem::F64(bits) => {
            let v = f64::from_bits(*bits);
            info.label(if v.is_nan() { "f64:nan" } else if v == 0.0 { "f64:zero" } else { "f64:other" });
            (canonical_bits(v).to_le_bytes().to_vec(), Feed::F64(v), format!("update_f64({v:?}) [bits {bits:#x}]"))
        }
        BoundaryItem::F32(bits) => {
            let v = f32::from_bits(*bits);
            info.label(if v.is_nan() { "f32:nan" } else if v == 0.0 { "f32:zero" } else { "f32:other" });
            (canonical_bits(v as f64).to_le_bytes().to_vec(), Feed::F32(v), format!("update_f32({v:?}) [bits {bits:#x}]"))
        }
    };
    // theta
    let mut t = ThetaSketch::builder().lg_k(c.lg_k.max(5)).build();
    match &feed {
        Feed::U128(x) => t.update(*x),
        Feed::F64(v) => t.update_f64(*v),
        Feed::F32(v) => t.update_f32(*v),
    }
    let want = refhash::theta_hash(&bytes, refhash::DEFAULT_SEED);
    let got: Vec<u64> = t.iter().collect();
    if want == 0 || want >= i64::MAX as u64 {
        // the KMV screen keeps hashes in (0, theta), theta <= 2^63 - 1
        ensure!(got.is_empty(), "C16.theta.hash", "{what}: hash {want:#x} is outside (0, theta) and must be ignored, got {got:x?}");
    } else {
        ensure!(got == vec![want], "C16.theta.hash", "{what}: theta retained {got:x?}, reference {want:x}");
    }
    // CPC
    let mut cp = CpcSketch::new(c.lg_k);
    match &feed {
        Feed::U128(x) => cp.update(*x),
        Feed::F64(v) => cp.update_f64(*v),
        Feed::F32(v) => cp.update_f32(*v),
    }
    let rc = refhash::cpc_row_col(&bytes, refhash::DEFAULT_SEED, c.lg_k);
    let mut want_m = vec![0u64; 1 << c.lg_k];
    want_m[(rc >> 6) as usize] |= 1u64 << (rc & 63);
    ensure!(cp.verif_bit_matrix() == want_m && cp.num_coupons() == 1, "C16.cpc.row_col", "{what}: CPC matrix differs from reference row/col {rc:#x} (num_coupons {})", cp.num_coupons());
    // HLL (no float entry points: generic items only)
    if let Feed::U128(x) = &feed {
        for ty in [HllType::Hll4, HllType::Hll6, HllType::Hll8] {
            let mut h = HllSketch::new(c.lg_k, ty);
            h.update(*x);
            let want = refhash::hll_coupon(&bytes);
            let got: Vec<u32> = h.verif_state().coupon_slots.iter().copied().filter(|&v| v != 0).collect();
            ensure!(got == vec![want], "C16.hll.coupon", "{what}: HLL coupon {got:x?}, reference {want:x}");
            // and the same item twice more changes nothing
            h.update(*x);
            ensure!(h.estimate() > 0.99 && h.estimate() < 1.01, "C16.hll.coupon", "{what}: estimate {} after one distinct item", h.estimate());
        }
    }
    Ok(())
}

pub fn def() -> PropDef {
    PropDef {
        id: "C16",
        assumptions: vec![
            "reference MurmurHash3-x64-128 / XXH64 in kit/refhash.rs transcribe the public reference algorithms (self-tested against published vectors at start-up)",
            "the verif-hooks re-exports call the same hasher types the sketches use",
            "derivations of coupon / theta hash / row-col / bucket / bit positions are those documented for DataSketches (DESIGN 2.3)",
        ],
        subs: vec![
            Box::new(PropSub {
                name: "digest_random",
                rule: "random bytes (len 0..=200), seed in {0,9001,MAX,1,random}, random cut points incl. empty chunks and byte-wise writes; non-trivial = some interior chunk boundary not a multiple of 16; distinct by (bytes, seed, cuts)",
                cases_quick: 3_000_000,
                cases_thorough: 40_000_000,
                max_shrink_iters: 4000,
                limit_factor: 1,
                strategy: digest_case,
                check: digest_random,
            }),
            Box::new(PropSub {
                name: "digest_exhaustive_window",
                rule: "prefix(0..=40 bytes, one write) + window(1..=12 bytes, ALL 2^(n-1) compositions enumerated) + suffix(0..=40, one write); non-trivial = window >= 2 bytes; total chunkings under extra.sum_chunkings",
                cases_quick: 40_000,
                cases_thorough: 400_000,
                max_shrink_iters: 2000,
                limit_factor: 1,
                strategy: exh_case,
                check: digest_exhaustive,
            }),
            Box::new(PropSub {
                name: "derived_public_api",
                rule: "one item (u64 / i32 / str / byte slice / tuple / custom chunked-write item) pushed through the public update of theta, HLL x3 types, CPC, Count-Min, Bloom; state compared with the reference derivation from the item's recorded byte stream; every case non-trivial",
                cases_quick: 200_000,
                cases_thorough: 3_000_000,
                max_shrink_iters: 2000,
                limit_factor: 1,
                strategy: derived_case,
                check: derived,
            }),
            Box::new(PropSub {
                name: "boundary_digests_and_floats",
                rule: "items built to hit the ends of the derivations through the PUBLIC update methods: (a) u128 items computed as MurmurHash3 pre-images of chosen digests (h1, h2) - every leading-zero count 0..=64 of h2 (register value 1..63, CPC column 0..63, h2 = 0), h1 = 0 / 1 / 2^63 / MAX (theta hash 0 is ignored, slot and row bits all 0 or all 1); (b) update_f64 / update_f32 of theta and CPC with +-0.0, every NaN class, infinities, subnormals and random bits, against Java's canonical form (one zero, one NaN). State compared with the reference derivation; thorough tier: once per run an item of 2^32 + 5 hashed bytes against a streaming reference; every case non-trivial",
                cases_quick: 100_000,
                cases_thorough: 1_500_000,
                max_shrink_iters: 2000,
                limit_factor: 1,
                strategy: boundary_case,
                check: boundary,
            }),
        ],
        post: None,
    }
}
