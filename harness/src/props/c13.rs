//! C13 - every image variant Java/C++ can emit is read back to the state it encodes.

use super::c02::{self, tname, value_strategy, TYPES};
use super::{c09, c10, ser_theta, PropDef};
use crate::kit::refhash;
use crate::kit::runner::{CaseInfo, Fail, PropSub};
use crate::kit::SplitMix;
use crate::model::hll::HllModel;
use crate::spec::{fi as fspec, hll as hspec, tdigest as tspec, theta as thspec};
use datasketches::bloom::BloomFilter;
use datasketches::common::NumStdDev;
use datasketches::frequencies::FrequentItemsSketch;
use datasketches::hll::{HllSketch, HllType, HllUnion};
use datasketches::tdigest::TDigestMut;
use datasketches::theta::CompactThetaSketch;
use proptest::prelude::*;
use serde::{Deserialize, Serialize};
use std::collections::BTreeSet;

// ---------------------------------------------------------------------------------------- HLL

#[derive(Debug, Clone, Serialize, Deserialize)]
pub struct HllCase {
    pub lg_k: u8,
    pub ty: u8,
    /// abstract content: crafted coupons (slot, value) plus n hashed keys
    pub coupons: Vec<(u32, u8)>,
    pub keys: u32,
    pub key_seed: u64,
    /// force a register array even if the content would still fit a list / set
    pub force_array: bool,
    pub compact: bool,
    pub ooo: bool,
    /// HIP field of an out-of-order image: 0 valid-looking, 1 zero, 2 garbage
    pub hip_kind: u8,
    /// sweep: give every register a value >= base first (Hll4 cur_min > 0, aux entries)
    pub sweep_base: Option<u8>,
    pub more: Vec<c02::Op>,
}

fn hll_case() -> impl Strategy<Value = HllCase> {
    (
        // rare: lg_k 17..=21, where coupon sets reach 2^14 slots and more
        prop_oneof![40 => 4u8..=14, 1 => 17u8..=21],
        0u8..3,
        proptest::collection::vec((0u32..(1 << 26), value_strategy()), 0..40),
        prop_oneof![3 => 0u32..=12, 3 => 0u32..=3000, 1 => 0u32..=40_000],
        any::<u64>(),
        any::<bool>(),
        any::<bool>(),
        any::<bool>(),
        0u8..3,
        proptest::option::weighted(0.25, 1u8..=40),
        proptest::collection::vec(c02::op_strategy(false), 0..12),
    )
        .prop_map(|(lg_k, ty, coupons, keys, key_seed, force_array, compact, ooo, hip_kind, sweep_base, more)| HllCase {
            lg_k,
            ty,
            coupons,
            keys,
            key_seed,
            force_array,
            compact,
            ooo,
            hip_kind,
            sweep_base,
            more,
        })
}

fn hll_images(c: &HllCase, info: &mut CaseInfo) -> Result<(), Fail> {
    let lg_k = c.lg_k;
    let tgt = c.ty % 3;
    let ty = TYPES[tgt as usize];
    let mut m = HllModel::new(lg_k);
    // a native twin fed the same content (for HIP of in-order images and estimate comparison)
    let mut twin = HllSketch::new(lg_k, ty);
    let mut sm = SplitMix(c.key_seed);
    if let Some(b) = c.sweep_base {
        if lg_k <= 12 {
            for s in 0..(1u32 << lg_k) {
                let v = (b as u32 + sm.next().leading_zeros()).min(63);
                let cp = (v << 26) | s;
                m.offer(cp);
                twin.verif_update_with_coupon(cp);
            }
        }
    }
    for &(slot, v) in &c.coupons {
        let cp = ((v as u32) << 26) | slot;
        m.offer(cp);
        twin.verif_update_with_coupon(cp);
    }
    for _ in 0..c.keys {
        let cp = refhash::hll_coupon(&sm.next().to_le_bytes());
        m.offer(cp);
        twin.verif_update_with_coupon(cp);
    }
    let (pmode, plg) = m.predicted_mode();
    let mode = if c.force_array { 2 } else { pmode };
    let opts = hspec::EncOpts { compact: c.compact, ooo: c.ooo && mode == 2, empty_flag: true };
    let want_coupons: Vec<u32> = m.coupons.iter().copied().collect();
    let twin_st = twin.verif_state();
    let bytes = match mode {
        0 => hspec::encode_list(lg_k, tgt, &want_coupons, &opts),
        1 => hspec::encode_set(lg_k, tgt, &want_coupons, plg as u8, &opts),
        _ => {
            let hip = if opts.ooo {
                match c.hip_kind % 3 {
                    0 => twin.estimate(),
                    1 => 0.0,
                    _ => 12345.678,
                }
            } else if twin_st.mode == 2 {
                twin_st.hip_accum
            } else {
                // forced array of few coupons, in order: HIP of a sketch that saw them = its estimate
                twin.estimate()
            };
            hspec::encode_array(lg_k, tgt, &m.regs, hip, &opts)
        }
    };
    let variant = format!(
        "{}/{}{}",
        ["list", "set", "array"][mode as usize],
        if c.compact { "compact" } else { "updatable" },
        if opts.ooo { "/ooo" } else { "" }
    );
    let ctx = format!("{} lg_k {lg_k} {variant} ({} distinct coupons)", tname(ty), m.distinct);
    let mut d = HllSketch::deserialize(&bytes).map_err(|e| Fail { clause: "C13.hll.valid_image_rejected".into(), detail: format!("{ctx}: {e}") })?;
    ensure!(d.lg_config_k() == lg_k && d.target_type() == ty, "C13.hll.header", "{ctx}: lg_k {} type {:?}", d.lg_config_k(), d.target_type());
    let st = d.verif_state();
    ensure!(st.mode == mode, "C13.hll.mode", "{ctx}: deserialized into mode {}", st.mode);
    if mode < 2 {
        let got: BTreeSet<u32> = st.coupon_slots.iter().copied().filter(|&x| x != 0).collect();
        ensure!(got == m.coupons, "C13.hll.coupons", "{ctx}: holds {} coupons, the image encodes {}", got.len(), m.coupons.len());
        ensure!(st.coupon_count == m.coupons.len(), "C13.hll.coupon_count", "{ctx}: count {}", st.coupon_count);
        ensure!(d.estimate().to_bits() == twin.estimate().to_bits(), "C13.hll.estimate", "{ctx}: estimate {} but a native sketch of the same coupons says {}", d.estimate(), twin.estimate());
    } else {
        if st.registers != m.regs {
            let i = (0..m.regs.len()).find(|&i| st.registers.get(i) != m.regs.get(i)).unwrap_or(0);
            fail!("C13.hll.registers", "{ctx}: register[{i}] = {:?}, the image encodes {}", st.registers.get(i), m.regs[i]);
        }
        // full internal consistency with the encoded state
        c02::check_state(&st, ty, &{
            let mut mm = m.clone();
            mm.coupons_dropped = true;
            mm
        }, &ctx)
        .map_err(|f| Fail { clause: f.clause.replace("C02.", "C13.hll."), detail: f.detail })?;
        ensure!(st.out_of_order == opts.ooo, "C13.hll.ooo", "{ctx}: out_of_order {}", st.out_of_order);
        if !opts.ooo {
            let hip = if twin_st.mode == 2 { twin_st.hip_accum } else { twin.estimate() };
            ensure!(d.estimate() == hip, "C13.hll.hip", "{ctx}: in-order estimate {} but the image's HIP accumulator is {hip}", d.estimate());
        } else {
            ensure!(d.estimate() > 0.0 || m.regs.iter().all(|&r| r == 0), "C13.hll.ooo_estimate_zero", "{ctx}: out-of-order image estimates 0");
        }
    }
    ensure!(d.is_empty() == (m.distinct == 0 && !m.coupons_dropped), "C13.hll.is_empty", "{ctx}: is_empty {}", d.is_empty());
    let (l, e, u) = (d.lower_bound(NumStdDev::Two), d.estimate(), d.upper_bound(NumStdDev::Two));
    ensure!(l <= e && e <= u && u.is_finite(), "C13.hll.bounds", "{ctx}: ({l}, {e}, {u})");
    // re-serialization encodes the same state
    let re = hspec::decode(&d.serialize()).map_err(|e| Fail { clause: "C13.hll.reserialize_undecodable".into(), detail: format!("{ctx}: {e}") })?;
    if mode < 2 {
        let got: BTreeSet<u32> = re.coupons.iter().copied().collect();
        ensure!(got == m.coupons && re.mode == mode, "C13.hll.reserialize", "{ctx}: re-serialized image holds {} coupons in mode {}", got.len(), re.mode);
    } else {
        ensure!(re.registers == m.regs && re.mode == 2, "C13.hll.reserialize", "{ctx}: re-serialized registers differ");
    }
    // set operations behave as the state requires
    let mut u = HllUnion::new(lg_k);
    u.update(&d);
    let g = u.to_sketch(HllType::Hll8).verif_state();
    if g.mode == 2 {
        ensure!(g.registers == m.regs, "C13.hll.union_registers", "{ctx}: a union fed this sketch holds different registers");
    } else {
        let got: BTreeSet<u32> = g.coupon_slots.iter().copied().filter(|&x| x != 0).collect();
        ensure!(got == m.coupons, "C13.hll.union_coupons", "{ctx}: a union fed this sketch holds different coupons");
    }
    ensure!((u.estimate() > 0.0) == (m.distinct > 0 || m.coupons_dropped), "C13.hll.union_estimate", "{ctx}: union estimate {}", u.estimate());
    // further updates
    let mut history: Vec<Vec<u32>> = vec![];
    let mut mm = m.clone();
    if mode == 2 {
        mm.coupons_dropped = true;
    }
    for (i, op) in c.more.iter().enumerate() {
        let mut cs = vec![];
        c02::expand(op, lg_k, &history, &mut cs);
        for &cp in &cs {
            mm.offer(cp);
        }
        c02::apply(&mut d, op, &cs);
        history.push(if cs.len() <= 64 { cs } else { cs[..64].to_vec() });
        let st = d.verif_state();
        if st.mode < 2 && mode < 2 {
            let got: BTreeSet<u32> = st.coupon_slots.iter().copied().filter(|&x| x != 0).collect();
            ensure!(got == mm.coupons, "C13.hll.update_after_deserialize", "{ctx}: after follow-up op #{i} {op:?}: {} coupons, expected {}", got.len(), mm.coupons.len());
        } else if st.mode == 2 {
            ensure!(st.registers == mm.regs, "C13.hll.update_after_deserialize", "{ctx}: after follow-up op #{i} {op:?}: registers differ from the model");
        }
    }
    // every coupon the image held is still found at its place: offering it again changes nothing (a set adopted
    // slot for slot from an updatable image must be probed the way the foreign writer filled it)
    {
        let st0 = d.verif_state();
        if st0.mode < 2 {
            let step = (mm.coupons.len() / 400).max(1);
            for cp in mm.coupons.iter().step_by(step) {
                d.verif_update_with_coupon(*cp);
            }
            let st = d.verif_state();
            if st.mode < 2 {
                let slots: Vec<u32> = st.coupon_slots.iter().copied().filter(|&x| x != 0).collect();
                let distinct: BTreeSet<u32> = slots.iter().copied().collect();
                ensure!(
                    slots.len() == distinct.len() && distinct == mm.coupons && st.coupon_count == mm.coupons.len(),
                    "C13.hll.duplicate_after_deserialize",
                    "{ctx}: after re-offering coupons the image already held: {} occupied slots, {} distinct, container count {}, model {}",
                    slots.len(),
                    distinct.len(),
                    st.coupon_count,
                    mm.coupons.len()
                );
            }
        }
    }
    info.label(format!("hll:{variant}"));
    let reg_min = m.regs.iter().min().copied().unwrap_or(0);
    if tgt == 0 && mode == 2 && m.regs.iter().any(|&r| r - reg_min >= 15) {
        info.label(format!("hll4_aux:{}", if c.compact { "list" } else { "table" }));
    }
    // variants this crate never writes itself
    info.nontrivial = !c.compact || opts.ooo || (mode == 2 && pmode < 2) || (mode == 2 && tgt != 0 && c.compact);
    Ok(())
}

// -------------------------------------------------------------------------------------- theta

#[derive(Debug, Clone, Serialize, Deserialize)]
pub struct ThetaCase {
    pub seed: u64,
    pub len: u16,
    pub width: u8,
    pub gen: u64,
    pub estimating: bool,
    /// 1, 2, 3, 4 = serial version; 3 with `alt` = alternative forms (single-item flag, preLongs 2 for one entry)
    pub ver: u8,
    pub alt: bool,
    pub ordered: bool,
}

fn theta_case() -> impl Strategy<Value = ThetaCase> {
    (
        prop_oneof![3 => Just(9001u64), 1 => any::<u64>()].prop_filter("seed hash != 0", |s| refhash::seed_hash(*s) != 0),
        prop_oneof![3 => 0u16..=3, 3 => 0u16..=40, 1 => 0u16..=2000],
        1u8..=63,
        any::<u64>(),
        any::<bool>(),
        1u8..=4,
        any::<bool>(),
        any::<bool>(),
    )
        .prop_map(|(seed, len, width, gen, estimating, ver, alt, ordered)| ThetaCase { seed, len, width, gen, estimating, ver, alt, ordered })
}

fn theta_images(c: &ThetaCase, info: &mut CaseInfo) -> Result<(), Fail> {
    let entries = ser_theta::make_entries(c.len as usize, c.width, c.gen);
    let last = entries.last().copied().unwrap_or(0);
    let theta = if c.estimating && last + 2 < thspec::MAX_THETA { last + 1 + (SplitMix(c.gen ^ 5).next() % 1000).min(thspec::MAX_THETA - last - 2) } else { thspec::MAX_THETA };
    let empty = entries.is_empty() && theta == thspec::MAX_THETA;
    let sh = refhash::seed_hash(c.seed);
    // v1, v2 and v4 are always ordered; v3 may be unordered
    let mut list = entries.clone();
    let mut ordered = true;
    let (bytes, variant): (Vec<u8>, String) = match c.ver {
        1 => (thspec::encode_v1(&entries, theta), "v1".into()),
        2 => (thspec::encode_v2(&entries, theta, sh, empty), "v2".into()),
        4 if !entries.is_empty() && !(entries.len() == 1 && theta == thspec::MAX_THETA) => (thspec::encode_v4(&entries, theta, sh), "v4".into()),
        _ => {
            if !c.ordered && list.len() > 1 {
                list.rotate_left(1);
                ordered = false;
            }
            let single_flag = c.alt;
            (thspec::encode_v3(&list, theta, sh, ordered, empty, single_flag), format!("v3{}", if c.alt { "/alt" } else { "" }))
        }
    };
    // a legacy form: EMPTY flag set on an image that still carries three preamble longs and theta = p < 1 (a
    // never-updated sampling sketch as releases before the theta correction wrote it). Readers go by the flag:
    // the plain empty sketch.
    let (bytes, variant, theta, empty) = if c.ver == 3 && c.alt && entries.is_empty() && theta < thspec::MAX_THETA && bytes.len() >= 24 {
        let mut b = bytes;
        b[5] |= 4;
        (b, "v3/empty-flag-with-theta".to_string(), thspec::MAX_THETA, true)
    } else {
        (bytes, variant, theta, empty)
    };
    let kind = if empty { "empty" } else if theta < thspec::MAX_THETA { "estimating" } else if entries.len() == 1 { "single" } else { "exact" };
    let ctx = format!("{variant} {kind} image with {} entries (delta width {}), ordered {ordered}", entries.len(), c.width);
    let d = CompactThetaSketch::deserialize_with_seed(&bytes, c.seed).map_err(|e| Fail { clause: "C13.theta.valid_image_rejected".into(), detail: format!("{ctx}: {e}") })?;
    let got: Vec<u64> = d.iter().collect();
    ensure!(got == list, "C13.theta.entries", "{ctx}: deserialized {} entries (first mismatch at {:?})", got.len(), got.iter().zip(&list).position(|(a, b)| a != b));
    ensure!(d.theta64() == theta, "C13.theta.theta", "{ctx}: theta {} expected {theta}", d.theta64());
    ensure!(d.is_empty() == empty, "C13.theta.empty", "{ctx}: is_empty() = {} but the image encodes {} entries with theta {}", d.is_empty(), entries.len(), if theta == thspec::MAX_THETA { "1.0" } else { "< 1.0" });
    ensure!(d.num_retained() == entries.len() && d.is_estimation_mode() == (theta < thspec::MAX_THETA), "C13.theta.accessors", "{ctx}: retained {} estimation {}", d.num_retained(), d.is_estimation_mode());
    if ordered {
        ensure!(d.is_ordered(), "C13.theta.ordered", "{ctx}: ordered image read as unordered");
    } else {
        ensure!(!d.is_ordered() || got.windows(2).all(|w| w[0] < w[1]), "C13.theta.ordered", "{ctx}: unordered entries flagged as ordered");
    }
    let want_est = if empty { 0.0 } else { entries.len() as f64 / (theta as f64 / thspec::MAX_THETA as f64) };
    ensure!((d.estimate() - want_est).abs() <= 1e-9 * want_est, "C13.theta.estimate", "{ctx}: estimate {} expected {want_est}", d.estimate());
    let (l, u) = (d.lower_bound(NumStdDev::Two), d.upper_bound(NumStdDev::Two));
    ensure!(l <= d.estimate() && d.estimate() <= u, "C13.theta.bounds", "{ctx}: ({l}, {}, {u})", d.estimate());
    if theta == thspec::MAX_THETA {
        ensure!(l == entries.len() as f64 && u == entries.len() as f64, "C13.theta.exact_bounds", "{ctx}: exact-mode bounds ({l}, {u})");
    }
    // re-serialization (both forms) encodes the same state
    for (nm, b) in [("serialize", d.serialize()), ("serialize_compressed", d.serialize_compressed())] {
        let im = thspec::decode(&b).map_err(|e| Fail { clause: "C13.theta.reserialize_undecodable".into(), detail: format!("{ctx} {nm}: {e}") })?;
        let mut a = im.entries.clone();
        a.sort_unstable();
        ensure!(a == entries && im.theta == theta && im.empty == empty, "C13.theta.reserialize", "{ctx} {nm}: re-serialized image encodes {} entries, theta {}, empty {}", a.len(), im.theta, im.empty);
        let d2 = CompactThetaSketch::deserialize_with_seed(&b, c.seed).map_err(|e| Fail { clause: "C13.theta.reserialize_rejected".into(), detail: format!("{ctx} {nm}: {e}") })?;
        ensure!(d2.estimate() == d.estimate() && d2.is_empty() == d.is_empty(), "C13.theta.reserialize", "{ctx} {nm}: second generation differs");
    }
    info.label(format!("theta:{variant}:{kind}"));
    info.nontrivial = c.ver != 3 || c.alt || !ordered;
    Ok(())
}

// ------------------------------------------------------------------------ Bloom / FI / t-digest

#[derive(Debug, Clone, Serialize, Deserialize)]
pub struct BloomCase {
    pub words: u16,
    pub num_hashes: u16,
    pub seed: u64,
    pub n_items: u16,
    pub item_seed: u64,
    /// 0 exact bit count, 1 dirty (all ones), 2 empty with 3 longs, 3 empty with 4 longs
    pub variant: u8,
}

fn bloom_case() -> impl Strategy<Value = BloomCase> {
    (1u16..=300, 1u16..=16, any::<u64>(), 0u16..=400, any::<u64>(), 0u8..4)
        .prop_map(|(words, num_hashes, seed, n_items, item_seed, variant)| BloomCase { words, num_hashes, seed, n_items, item_seed, variant })
}

fn bloom_images(c: &BloomCase, info: &mut CaseInfo) -> Result<(), Fail> {
    // thorough tier, once per run: a dirty-count image of a filter with more than 2^32 set bits (the format allows
    // about 2^37 bits): the recount must not be done in 32-bit arithmetic
    static HUGE_DONE: std::sync::atomic::AtomicBool = std::sync::atomic::AtomicBool::new(false);
    if std::env::var("VERIF_TIER_HINT").map(|t| t == "thorough").unwrap_or(false) && !HUGE_DONE.swap(true, std::sync::atomic::Ordering::SeqCst) {
        let words = (1usize << 26) + 1;
        let mut img = Vec::with_capacity(32 + 8 * words);
        // preamble longs 4, serial version 1, family 21, flags 0; num_hashes 3; seed; word count; dirty marker
        img.extend_from_slice(&[4u8, 1, 21, 0]);
        img.extend_from_slice(&3u16.to_le_bytes());
        img.extend_from_slice(&[0u8, 0]);
        img.extend_from_slice(&c.seed.to_le_bytes());
        img.extend_from_slice(&(words as i32).to_le_bytes());
        img.extend_from_slice(&[0u8; 4]);
        img.extend_from_slice(&u64::MAX.to_le_bytes());
        img.resize(32 + 8 * words, 0xff);
        let d = crate::kit::runner::guard(|| BloomFilter::deserialize(&img).map_err(|e| Fail { clause: "C13.bloom.valid_image_rejected".into(), detail: format!("dirty image of a full filter of 2^32 + 64 bits: {e}") }))?;
        drop(img);
        let want = 64 * words as u64;
        ensure!(d.bits_used() == want && !d.is_empty(), "C13.bloom.bits_used", "dirty image of a full filter of 2^32 + 64 bits: bits_used {} but the array has {want} bits", d.bits_used());
        info.label("bloom:dirty_2^32_bits");
    }
    let cap = c.words as u64 * 64;
    let mut bits = vec![0u64; c.words as usize];
    let empty = c.variant >= 2;
    let mut sm = SplitMix(c.item_seed);
    let mut keys = vec![];
    if !empty {
        for _ in 0..c.n_items.max(1) {
            let k = sm.next();
            keys.push(k);
            for p in c09::positions(&k.to_le_bytes(), c.seed, c.num_hashes, cap) {
                bits[(p / 64) as usize] |= 1 << (p % 64);
            }
        }
    }
    let pop: u64 = bits.iter().map(|w| w.count_ones() as u64).sum();
    let mut b = vec![];
    let pre = match c.variant {
        2 => 3u8,
        _ => 4,
    };
    b.push(pre);
    b.push(1);
    b.push(21);
    b.push(if empty { 4 } else { 0 });
    b.extend_from_slice(&c.num_hashes.to_le_bytes());
    b.extend_from_slice(&[0, 0]);
    b.extend_from_slice(&c.seed.to_le_bytes());
    b.extend_from_slice(&(c.words as i32).to_le_bytes());
    b.extend_from_slice(&0u32.to_le_bytes());
    if !empty {
        b.extend_from_slice(&(if c.variant == 1 { u64::MAX } else { pop }).to_le_bytes());
        for w in &bits {
            b.extend_from_slice(&w.to_le_bytes());
        }
    } else if pre == 4 {
        // Java writes the (zero) bit count long even for an empty filter in some versions
        b.extend_from_slice(&0u64.to_le_bytes());
    }
    let variant = ["exact_count", "dirty_count", "empty_3_longs", "empty_4_longs"][c.variant as usize % 4];
    let ctx = format!("{variant} image, {} words, {} hashes", c.words, c.num_hashes);
    let d = BloomFilter::deserialize(&b).map_err(|e| Fail { clause: "C13.bloom.valid_image_rejected".into(), detail: format!("{ctx}: {e}") })?;
    ensure!(d.capacity() as u64 == cap && d.num_hashes() == c.num_hashes && d.seed() == c.seed, "C13.bloom.config", "{ctx}: config changed");
    ensure!(d.bits_used() == pop, "C13.bloom.bits_used", "{ctx}: bits_used {} but the array has {pop} bits", d.bits_used());
    ensure!(d.is_empty() == (pop == 0), "C13.bloom.is_empty", "{ctx}: is_empty {}", d.is_empty());
    for k in &keys {
        ensure!(d.contains(k), "C13.bloom.false_negative", "{ctx}: an encoded item is not contained");
    }
    let im = c09::decode_image(&d.serialize()).map_err(|e| Fail { clause: "C13.bloom.reserialize_undecodable".into(), detail: format!("{ctx}: {e}") })?;
    if pop > 0 {
        ensure!(im.words == bits && im.bits_set == pop, "C13.bloom.reserialize", "{ctx}: re-serialized bits differ");
    } else {
        ensure!(im.empty, "C13.bloom.reserialize", "{ctx}: empty filter re-serialized as non-empty");
    }
    info.label(format!("bloom:{variant}"));
    info.nontrivial = c.variant >= 1;
    Ok(())
}

#[derive(Debug, Clone, Serialize, Deserialize)]
pub struct FiCase {
    pub strings: bool,
    pub lg_max: u8,
    pub lg_cur_delta: u8,
    pub items: Vec<(u16, u32)>,
    pub offset: u32,
    pub extra_weight: u32,
    /// flag byte of an empty image: 4 (Java), 5 (C++), 1
    pub empty_flags: u8,
}

fn fi_case() -> impl Strategy<Value = FiCase> {
    (
        any::<bool>(),
        3u8..=10,
        0u8..3,
        prop_oneof![1 => Just(vec![]), 4 => proptest::collection::vec((any::<u16>(), 1u32..=100_000), 0..40)],
        prop_oneof![2 => Just(0u32), 3 => 0u32..=1000],
        prop_oneof![2 => Just(0u32), 3 => 0u32..=1000],
        prop_oneof![Just(4u8), Just(5u8), Just(1u8)],
    )
        .prop_map(|(strings, lg_max, lg_cur_delta, items, offset, extra_weight, empty_flags)| FiCase { strings, lg_max, lg_cur_delta, items, offset, extra_weight, empty_flags })
}

fn fi_images(c: &FiCase, info: &mut CaseInfo) -> Result<(), Fail> {
    // distinct items, at most 3/4 of the current map size
    let cap_max = (1usize << c.lg_max) * 3 / 4;
    let mut seen = BTreeSet::new();
    let mut counters: Vec<(u64, u64)> = vec![];
    for &(id, w) in &c.items {
        if counters.len() < cap_max && seen.insert(id) {
            counters.push((id as u64, w as u64));
        }
    }
    // lg_cur: smallest size that holds them, plus delta, at most lg_max
    let mut lg_cur = 3u8;
    while (1usize << lg_cur) * 3 / 4 < counters.len() {
        lg_cur += 1;
    }
    let lg_cur = (lg_cur + c.lg_cur_delta).min(c.lg_max);
    let empty = counters.is_empty() && c.offset == 0 && c.extra_weight == 0;
    // every purge removed `delta` from each counter it kept and dropped counters below it, so the
    // stream weight is at least the counters plus the offset
    let stream_weight: u64 = counters.iter().map(|x| x.1).sum::<u64>() + (counters.len() as u64 + 1) * c.offset as u64 + c.extra_weight as u64;
    let im = fspec::FiImage {
        lg_max: c.lg_max,
        lg_cur,
        flags: 0,
        empty,
        stream_weight,
        offset: c.offset as u64,
        counts: counters.iter().map(|x| x.1).collect(),
        items: if c.strings { fspec::Items::Strings(counters.iter().map(|x| format!("item-\u{e9}-{}", x.0)).collect()) } else { fspec::Items::Longs(counters.iter().map(|x| x.0.wrapping_mul(0x9E3779B97F4A7C15)).collect()) },
    };
    let bytes = fspec::encode(&im, c.empty_flags);
    let ctx = format!("{} image: {} counters, offset {}, weight {stream_weight}, lgMax {} lgCur {lg_cur}, empty flags {}", if c.strings { "string" } else { "long" }, counters.len(), c.offset, c.lg_max, c.empty_flags);
    macro_rules! check {
        ($t:ty, $conv:expr) => {{
            let d = FrequentItemsSketch::<$t>::deserialize(&bytes).map_err(|e| Fail { clause: "C13.fi.valid_image_rejected".into(), detail: format!("{ctx}: {e}") })?;
            ensure!(d.total_weight() == if empty { 0 } else { stream_weight }, "C13.fi.total_weight", "{ctx}: total_weight {}", d.total_weight());
            ensure!(d.maximum_error() == if empty { 0 } else { c.offset as u64 }, "C13.fi.offset", "{ctx}: maximum_error {}", d.maximum_error());
            ensure!(d.num_active_items() == counters.len(), "C13.fi.active_items", "{ctx}: {} active items", d.num_active_items());
            ensure!(d.lg_max_map_size() == c.lg_max, "C13.fi.lg_max", "{ctx}: lg_max_map_size {}", d.lg_max_map_size());
            for &(id, w) in &counters {
                let it: $t = $conv(id);
                ensure!(d.lower_bound(&it) == w && d.upper_bound(&it) == w + c.offset as u64, "C13.fi.counter", "{ctx}: item {id}: [{}, {}] expected [{w}, {}]", d.lower_bound(&it), d.upper_bound(&it), w + c.offset as u64);
            }
            let re = fspec::decode(&d.serialize(), c.strings).map_err(|e| Fail { clause: "C13.fi.reserialize_undecodable".into(), detail: format!("{ctx}: {e}") })?;
            ensure!(re.empty == empty && (empty || (re.stream_weight == stream_weight && re.offset == c.offset as u64 && re.counts.len() == counters.len())), "C13.fi.reserialize", "{ctx}: re-serialized image encodes another state");
        }};
    }
    if c.strings {
        check!(String, |id: u64| format!("item-\u{e9}-{id}"));
    } else {
        check!(u64, |id: u64| id.wrapping_mul(0x9E3779B97F4A7C15));
        check!(i64, |id: u64| id.wrapping_mul(0x9E3779B97F4A7C15) as i64);
    }
    info.label(if empty { format!("fi:empty_flags={}", c.empty_flags) } else if counters.is_empty() { "fi:no_counters_but_weight".into() } else { "fi:counters".into() });
    info.nontrivial = !counters.is_empty() || !empty || c.empty_flags != 5;
    Ok(())
}

/// t-digest: C10's foreign-image generator with the additional demand that the centroid list
/// itself is preserved (images without buffered values).
fn td_images(c: &c10::ImageCase, info: &mut CaseInfo) -> Result<(), Fail> {
    c10::run_image(c, info).map_err(|f| Fail { clause: f.clause.replace("C10.", "C13.tdigest."), detail: f.detail })?;
    let (im, enc) = c10::build_image(c);
    if im.buffered.is_empty() {
        let bytes = tspec::encode(&im, enc);
        let mut d = TDigestMut::deserialize(&bytes, enc == tspec::Enc::Float).map_err(|e| Fail { clause: "C13.tdigest.valid_image_rejected".into(), detail: format!("{e}") })?;
        let re = tspec::decode(&d.serialize(), false).map_err(|e| Fail { clause: "C13.tdigest.reserialize_undecodable".into(), detail: e })?;
        let total: u64 = im.centroids.iter().map(|x| x.1).sum();
        if total > 1 {
            ensure!(re.centroids == im.centroids, "C13.tdigest.centroids", "{enc:?} image: centroid list changed by deserialize + serialize ({} -> {} centroids)", im.centroids.len(), re.centroids.len());
            ensure!(re.min == im.min && re.max == im.max && re.k == im.k, "C13.tdigest.header", "{enc:?} image: min / max / k changed");
            if matches!(enc, tspec::Enc::Double | tspec::Enc::Float) {
                ensure!(re.reverse_merge == im.reverse_merge, "C13.tdigest.reverse_merge", "{enc:?} image: merge direction flag {} -> {}", im.reverse_merge, re.reverse_merge);
            }
        }
    }
    Ok(())
}

pub fn def() -> PropDef {
    PropDef {
        id: "C13",
        assumptions: vec![
            "images are produced by the independent spec encoders in harness/src/spec from random abstract states; the variants are those the Java / C++ writers use (transcribed from their published layouts)",
            "a forced register array of few coupons and set tables larger than necessary are valid images (Java/C++ unions and updatable forms produce them)",
        ],
        subs: vec![
            Box::new(PropSub {
                name: "hll_variants",
                rule: "lg_k 4..=14 x 3 types; abstract content = crafted coupons + hashed keys (+ full sweeps for Hll4 cur_min / aux); encoded as list / set / array, compact or updatable (set as the published probe table, Hll4 aux as pair list or hash table with lgArr), with / without out-of-order flag (HIP valid, zero or garbage), empty flag; deserialized sketch must hold exactly the coupons / registers (+ cur_min, aux, kxq), report the HIP value when in order and a positive estimate when out of order, re-serialize to the same state, feed a union correctly and follow a model through further updates. non-trivial = a variant this crate never writes (updatable forms, out-of-order flag, forced arrays, compact-flag Hll6/Hll8 arrays)",
                cases_quick: 40_000,
                cases_thorough: 600_000,
                max_shrink_iters: 3000,
                limit_factor: 1,
                strategy: hll_case,
                check: hll_images,
            }),
            Box::new(PropSub {
                name: "theta_versions",
                rule: "serial versions 1, 2, 3, 4; empty / single / exact / estimating; v3 ordered and unordered, with and without the single-item flag; 0..2000 entries with delta widths 1..63; deserialized sketch must hold exactly the entries, theta, emptiness, ordering, estimate = n/theta, exact-mode bounds, and re-serialize (both forms) to the same state. non-trivial = not the plain v3 form",
                cases_quick: 60_000,
                cases_thorough: 800_000,
                max_shrink_iters: 3000,
                limit_factor: 1,
                strategy: theta_case,
                check: theta_images,
            }),
            Box::new(PropSub {
                name: "tdigest_encodings",
                rule: "C10's foreign-image generator (double, float, reference-implementation big-endian double / float; heavy end centroids; buffered values) with the C10 query battery, plus preservation of the centroid list, min, max, k and merge-direction flag through deserialize + serialize. non-trivial as in C10",
                cases_quick: 100_000,
                cases_thorough: 1_500_000,
                max_shrink_iters: 3000,
                limit_factor: 1,
                strategy: c10::image_case,
                check: td_images,
            }),
            Box::new(PropSub {
                name: "bloom_variants",
                rule: "bit arrays from the reference positions, encoded with an exact bit count, with the dirty marker (all ones), and as empty filters with 3 or 4 preamble longs; deserialized filter has the encoded bits, the recounted bits_used, contains every encoded item, and re-serializes to the same bits. non-trivial = dirty count or an empty form",
                cases_quick: 40_000,
                cases_thorough: 400_000,
                max_shrink_iters: 1000,
                limit_factor: 1,
                strategy: bloom_case,
                check: bloom_images,
            }),
            Box::new(PropSub {
                name: "frequent_items_variants",
                rule: "long and UTF-8 string images with arbitrary counters, offset, stream weight, lgCur >= the minimum, empty images with flag byte 4 (Java), 5 (C++) or 1; deserialized as i64 / u64 / String sketches: total_weight, maximum_error, every counter's [lb, ub], active items, and the re-serialized state. non-trivial = anything but the C++-style empty image",
                cases_quick: 40_000,
                cases_thorough: 400_000,
                max_shrink_iters: 2000,
                limit_factor: 1,
                strategy: fi_case,
                check: fi_images,
            }),
        ],
        post: None,
    }
}
