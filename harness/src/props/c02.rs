//! C02 - HLL sketch holds exactly the per-slot maximum of every item it was fed.

use super::PropDef;
use crate::kit::refhash;
use crate::kit::runner::{CaseInfo, Fail, PropSub};
use crate::kit::{pick_idx, SplitMix};
use crate::model::hll::HllModel;
use datasketches::common::NumStdDev;
use datasketches::hll::{HllSketch, HllType, VerifHllState};
use proptest::prelude::*;
use serde::{Deserialize, Serialize};

#[derive(Debug, Clone, Serialize, Deserialize)]
pub enum Op {
    /// hashed update with a u64 key
    Key(u64),
    /// re-offer the coupons of an earlier op
    Dup(u16),
    /// crafted coupon: 26-bit slot, value 1..=63
    Coupon { slot: u32, val: u8 },
    /// crafted coupon concentrated on a few registers
    Hot { reg: u16, val: u8 },
    /// one coupon for every register: value = base + geometric
    Sweep { base: u8, seed: u64 },
    /// n hashed keys expanded from a generated seed
    Burst { n: u16, seed: u64 },
    /// many hashed keys (only generated for large lg_k, to get past set mode)
    BigBurst { n: u32, seed: u64 },
    /// one coupon for every register, all with exactly this value
    Fill { val: u8 },
    /// hashed update with a u128 item (hi, lo) through the public update; the generator computes items whose
    /// MurmurHash3 digest has a chosen slot and a chosen number of leading zeros (register values up to 63)
    Key128 { hi: u64, lo: u64 },
}

#[derive(Debug, Clone, Serialize, Deserialize)]
pub struct Case {
    pub lg_k: u8,
    pub ops: Vec<Op>,
    /// seed of the permutation used by the metamorphic replay
    pub perm_seed: u64,
}

pub fn value_strategy() -> impl Strategy<Value = u8> {
    prop_oneof![
        4 => any::<u64>().prop_map(|x| (x.leading_zeros().min(62) + 1) as u8),
        2 => 1u8..=63,
        2 => (1u8..=45, any::<u32>()).prop_map(|(b, x)| (b as u32 + x.leading_zeros()).min(63) as u8),
        1 => prop_oneof![Just(1u8), Just(14), Just(15), Just(16), Just(31), Just(32), Just(62), Just(63)],
    ]
}

pub fn op_strategy(heavy: bool) -> impl Strategy<Value = Op> {
    let sweep_w = if heavy { 2 } else { 0 };
    let big_w = if heavy { 0 } else { 1 };
    prop_oneof![
        30 => any::<u64>().prop_map(Op::Key),
        6 => any::<u16>().prop_map(Op::Dup),
        20 => (0u32..(1 << 26), value_strategy()).prop_map(|(slot, val)| Op::Coupon { slot, val }),
        20 => (any::<u16>(), value_strategy()).prop_map(|(reg, val)| Op::Hot { reg, val }),
        sweep_w => (1u8..=50, any::<u64>()).prop_map(|(base, seed)| Op::Sweep { base, seed }),
        3 => (1u16..=2000, any::<u64>()).prop_map(|(n, seed)| Op::Burst { n, seed }),
        big_w => (20_000u32..=120_000, any::<u64>()).prop_map(|(n, seed)| Op::BigBurst { n, seed }),
        sweep_w / 2 => (1u8..=63).prop_map(|val| Op::Fill { val }),
        8 => (any::<u64>(), value_strategy(), any::<u64>()).prop_map(|(h1, val, r)| {
            // h2 with exactly val - 1 leading zeros (val = 63: 62 or more)
            let lz = (val as u32).clamp(1, 63) - 1;
            let h2 = if lz >= 62 { r >> 62 >> (r & 1) } else { ((1u64 << 63) | (r >> 1)) >> lz };
            let it = refhash::u128_item_for(h1, h2, refhash::DEFAULT_SEED);
            Op::Key128 { hi: (it >> 64) as u64, lo: it as u64 }
        }),
    ]
}

fn lgk_strategy(thorough: bool) -> impl Strategy<Value = u8> {
    if thorough {
        prop_oneof![6 => 4u8..=10, 3 => 11u8..=14, 1 => 15u8..=21].boxed()
    } else {
        prop_oneof![8 => 4u8..=10, 2 => 11u8..=13, 1 => Just(21u8)].boxed()
    }
}

pub fn case_strategy(thorough: bool) -> impl Strategy<Value = Case> {
    let max_ops = if thorough { 6000 } else { 1500 };
    (lgk_strategy(thorough), any::<u64>()).prop_flat_map(move |(lg_k, perm_seed)| {
        // sweeps cost O(k): only for moderate k
        let heavy = lg_k <= 12;
        let max_ops = if lg_k >= 15 { 60 } else { max_ops };
        proptest::collection::vec(op_strategy(heavy), 0..max_ops)
            .prop_map(move |ops| Case { lg_k, ops, perm_seed })
    })
}

/// Expand one op into the coupons it offers (hashed keys through the reference hash).
pub fn expand(op: &Op, lg_k: u8, history: &[Vec<u32>], out: &mut Vec<u32>) {
    match op {
        Op::Key(k) => out.push(refhash::hll_coupon(&k.to_le_bytes())),
        Op::Dup(i) => {
            if !history.is_empty() {
                out.extend_from_slice(&history[pick_idx(*i, history.len())]);
            }
        }
        Op::Coupon { slot, val } => out.push(((*val as u32) << 26) | slot),
        Op::Hot { reg, val } => {
            let hot = (1usize << lg_k).min(12);
            let r = pick_idx(*reg, hot) as u32;
            // same register, different coupons: bits 21..25 are never part of a register index
            let slot = r | (((*reg as u32) & 0x1f) << 21);
            out.push(((*val as u32) << 26) | slot);
        }
        Op::Sweep { base, seed } => {
            let mut sm = SplitMix(*seed);
            for s in 0..(1u32 << lg_k) {
                let v = (*base as u32 + sm.next().leading_zeros()).min(63);
                out.push((v << 26) | s);
            }
        }
        Op::Burst { n, seed } => {
            let mut sm = SplitMix(*seed);
            for _ in 0..*n {
                out.push(refhash::hll_coupon(&sm.next().to_le_bytes()));
            }
        }
        Op::BigBurst { n, seed } => {
            let mut sm = SplitMix(*seed);
            for _ in 0..*n {
                out.push(refhash::hll_coupon(&sm.next().to_le_bytes()));
            }
        }
        Op::Fill { val } => {
            for s in 0..(1u32 << lg_k) {
                out.push(((*val as u32).clamp(1, 63) << 26) | s);
            }
        }
        Op::Key128 { hi, lo } => out.push(refhash::hll_coupon(&(((*hi as u128) << 64) | *lo as u128).to_le_bytes())),
    }
}

/// Apply one op to a real sketch (hashed keys go through the public `update`).
pub fn apply(sk: &mut HllSketch, op: &Op, coupons: &[u32]) {
    match op {
        Op::Key(k) => sk.update(*k),
        Op::Burst { n, seed } => {
            let mut sm = SplitMix(*seed);
            for _ in 0..*n {
                sk.update(sm.next());
            }
        }
        Op::BigBurst { n, seed } => {
            let mut sm = SplitMix(*seed);
            for _ in 0..*n {
                sk.update(sm.next());
            }
        }
        Op::Key128 { hi, lo } => sk.update(((*hi as u128) << 64) | *lo as u128),
        _ => {
            for &c in coupons {
                sk.verif_update_with_coupon(c);
            }
        }
    }
}

pub const TYPES: [HllType; 3] = [HllType::Hll4, HllType::Hll6, HllType::Hll8];

pub fn tname(t: HllType) -> &'static str {
    match t {
        HllType::Hll4 => "Hll4",
        HllType::Hll6 => "Hll6",
        HllType::Hll8 => "Hll8",
    }
}

/// Compare a sketch's dumped state with the model. `exact_kxq` = compare kxq registers too.
pub fn check_state(st: &VerifHllState, ty: HllType, m: &HllModel, ctx: &str) -> Result<(), Fail> {
    let t = tname(ty);
    if st.mode < 2 {
        ensure!(
            !m.coupons_dropped,
            "C02.sparse_too_long",
            "{ctx} {t}: sketch still in list/set mode after {} distinct coupons (limit {})",
            m.distinct,
            m.sparse_limit()
        );
        let mut got: Vec<u32> = st.coupon_slots.iter().copied().filter(|&c| c != 0).collect();
        got.sort_unstable();
        let want: Vec<u32> = m.coupons.iter().copied().collect();
        ensure!(
            got.windows(2).all(|w| w[0] != w[1]),
            "C02.coupons.duplicate",
            "{ctx} {t}: duplicate coupon stored: {got:x?}"
        );
        ensure!(
            got == want,
            "C02.coupons.set",
            "{ctx} {t}: mode {} holds {} coupons, model {}: missing {:x?}, extra {:x?}",
            st.mode,
            got.len(),
            want.len(),
            want.iter().filter(|c| !got.contains(c)).take(5).collect::<Vec<_>>(),
            got.iter().filter(|c| !want.contains(c)).take(5).collect::<Vec<_>>()
        );
        ensure!(
            st.coupon_count == want.len(),
            "C02.coupons.count",
            "{ctx} {t}: container count {} but {} coupons stored",
            st.coupon_count,
            want.len()
        );
    } else {
        ensure!(st.registers.len() == m.regs.len(), "C02.registers.len", "{ctx} {t}: {} registers", st.registers.len());
        if st.registers != m.regs {
            let i = (0..m.regs.len()).find(|&i| st.registers[i] != m.regs[i]).unwrap();
            fail!(
                "C02.registers",
                "{ctx} {t}: register[{i}] = {} but model max = {} (lg_k {})",
                st.registers[i],
                m.regs[i],
                m.lg_k
            );
        }
        let min = *m.regs.iter().min().unwrap();
        if ty == HllType::Hll4 {
            ensure!(st.cur_min == min, "C02.hll4.cur_min", "{ctx}: cur_min {} but min register {}", st.cur_min, min);
            let n = m.regs.iter().filter(|&&r| r == min).count() as u32;
            ensure!(
                st.num_at_cur_min == n,
                "C02.hll4.num_at_cur_min",
                "{ctx}: num_at_cur_min {} but {} registers at {}",
                st.num_at_cur_min,
                n,
                min
            );
            let mut aux = st.aux.clone();
            aux.sort_unstable();
            let want: Vec<(u32, u8)> = m
                .regs
                .iter()
                .enumerate()
                .filter(|(_, &r)| r - min >= 15)
                .map(|(i, &r)| (i as u32, r))
                .collect();
            ensure!(aux == want, "C02.hll4.aux", "{ctx}: aux map {aux:?} but exceptions are {want:?}");
            for (i, &r) in m.regs.iter().enumerate() {
                let want_raw = (r - min).min(15);
                ensure!(
                    st.raw_nibbles[i] == want_raw,
                    "C02.hll4.nibble",
                    "{ctx}: nibble[{i}] = {} want {want_raw}",
                    st.raw_nibbles[i]
                );
            }
        } else {
            let z = m.regs.iter().filter(|&&r| r == 0).count() as u32;
            ensure!(
                st.num_at_cur_min == z,
                "C02.num_zeros",
                "{ctx} {t}: num_zeros {} but {} zero registers",
                st.num_at_cur_min,
                z
            );
        }
        let (a, b) = m.kxq();
        ensure!(
            (st.kxq0 - a).abs() <= 1e-9 * a.abs().max(1e-300) && (st.kxq1 - b).abs() <= 1e-9 * b.abs() + 1e-300,
            "C02.kxq",
            "{ctx} {t}: kxq ({}, {}) but recomputed ({a}, {b})",
            st.kxq0,
            st.kxq1
        );
    }
    Ok(())
}

fn readings(s: &HllSketch) -> [f64; 7] {
    [
        s.estimate(),
        s.lower_bound(NumStdDev::One),
        s.lower_bound(NumStdDev::Two),
        s.lower_bound(NumStdDev::Three),
        s.upper_bound(NumStdDev::One),
        s.upper_bound(NumStdDev::Two),
        s.upper_bound(NumStdDev::Three),
    ]
}

pub fn run_case(c: &Case, info: &mut CaseInfo) -> Result<(), Fail> {
    let lg_k = c.lg_k;
    let k = 1usize << lg_k;
    let mut model = HllModel::new(lg_k);
    let mut sks: Vec<HllSketch> = TYPES.iter().map(|&t| HllSketch::new(lg_k, t)).collect();
    let mut history: Vec<Vec<u32>> = Vec::with_capacity(c.ops.len());
    let mut all: Vec<u32> = vec![];
    let mut last_mode = 0u8;
    let mut cur_min_shifts = 0u32;
    let mut last_cur_min = 0u8;
    let mut aux_seen = false;
    let mut checks = 0u64;
    info.label(format!("lg_k={lg_k}"));

    let n_ops = c.ops.len();
    for (i, op) in c.ops.iter().enumerate() {
        let mut cs = vec![];
        expand(op, lg_k, &history, &mut cs);
        for &cp in &cs {
            model.offer(cp);
        }
        for sk in sks.iter_mut() {
            apply(sk, op, &cs);
        }
        if all.len() < 400_000 {
            all.extend_from_slice(&cs);
        }
        history.push(if cs.len() <= 64 { cs } else { cs[..64].to_vec() });

        let st8 = sks[2].verif_state();
        let mode_changed = st8.mode != last_mode;
        last_mode = st8.mode;
        let dense = k <= 1024 && i < 300;
        let step = (i + 1).is_power_of_two() || i + 1 == n_ops || (k <= 4096 && i % 64 == 63);
        if !(dense || step || mode_changed) {
            continue;
        }
        checks += 1;
        let ctx = format!("after op #{i} ({op:?})");
        let mut reads = vec![];
        for (j, sk) in sks.iter().enumerate() {
            let st = if j == 2 { st8.clone() } else { sk.verif_state() };
            check_state(&st, TYPES[j], &model, &ctx)?;
            ensure!(
                sk.is_empty() == (model.distinct == 0 && !model.coupons_dropped),
                "C02.is_empty",
                "{ctx} {}: is_empty() = {}",
                tname(TYPES[j]),
                sk.is_empty()
            );
            if j == 0 && st.mode == 2 {
                if st.cur_min != last_cur_min {
                    cur_min_shifts += 1;
                    last_cur_min = st.cur_min;
                }
                aux_seen |= !st.aux.is_empty();
            }
            reads.push(readings(sk));
        }
        for j in 0..2 {
            ensure!(
                reads[j] == reads[2],
                "C02.types_disagree",
                "{ctx}: {} reports (est, lb1..3, ub1..3) = {:?} but Hll8 {:?}",
                tname(TYPES[j]),
                reads[j],
                reads[2]
            );
        }
    }

    // metamorphic: permuted + duplicated replay ends in the same abstract state
    if !all.is_empty() && all.len() < 400_000 {
        let mut perm = all.clone();
        let mut sm = SplitMix(c.perm_seed);
        let dup = (perm.len() / 4).min(1000);
        for _ in 0..dup {
            let j = sm.below(all.len() as u64) as usize;
            perm.push(all[j]);
        }
        for i in (1..perm.len()).rev() {
            let j = sm.below(i as u64 + 1) as usize;
            perm.swap(i, j);
        }
        for (j, &t) in TYPES.iter().enumerate() {
            let mut s2 = HllSketch::new(lg_k, t);
            for &cp in &perm {
                s2.verif_update_with_coupon(cp);
            }
            let st2 = s2.verif_state();
            check_state(&st2, t, &model, "permuted replay")?;
            let st1 = sks[j].verif_state();
            ensure!(
                st1.mode == st2.mode,
                "C02.order_dependence.mode",
                "{}: original ends in mode {} but permuted replay in mode {}",
                tname(t),
                st1.mode,
                st2.mode
            );
        }
    }

    if last_mode == 2 {
        info.label("reached_array");
    } else if last_mode == 1 {
        info.label("ended_in_set");
    } else {
        info.label("ended_in_list");
    }
    if cur_min_shifts > 0 {
        info.label("hll4_cur_min_shift");
    }
    if aux_seen {
        info.label("hll4_aux_entries");
    }
    info.sum("state_checks", checks as f64);
    info.nontrivial = last_mode == 2 && (cur_min_shifts > 0 || aux_seen);
    Ok(())
}

pub fn def() -> PropDef {
    PropDef {
        id: "C02",
        assumptions: vec![
            "coupon = ((min(lz(h2),62)+1) << 26) | (h1 & 0x3ffffff) from the reference MurmurHash3 (seed 9001)",
            "crafted coupons enter through the verif-hooks method, which calls the same update_with_coupon as update()",
            "state is read through HllSketch::verif_state (add-only hook)",
        ],
        subs: vec![
            Box::new(PropSub {
                name: "history_vs_model",
                rule: "lg_k 4..=13 and 21 (thorough: 4..=21), histories of hashed keys / duplicates / crafted coupons (uniform slots, hot registers, values geometric, uniform 1..63, base+geometric, boundary values) / full-register sweeps / bursts, run through Hll4+Hll6+Hll8 in lock-step with the model; state compared after every op early on, then at powers of two, every mode change and the end; permuted+duplicated replay at the end. non-trivial = reached array mode and Hll4 saw a cur_min shift or an aux entry; distinct by the whole case",
                cases_quick: 12_000,
                cases_thorough: 40_000,
                max_shrink_iters: 3000,
                limit_factor: 1,
                strategy: || case_strategy(false),
                check: run_case,
            }),
            Box::new(PropSub {
                name: "history_vs_model_deep",
                rule: "same as history_vs_model with up to 6000 ops per history and lg_k up to 21 weighted in (runs in both tiers with a smaller case count in quick)",
                cases_quick: 1_500,
                cases_thorough: 8_000,
                max_shrink_iters: 3000,
                limit_factor: 1,
                strategy: || case_strategy(true),
                check: run_case,
            }),
        ],
        post: None,
    }
}
