//! C17 - no valid sequence of public API calls panics, in debug or release builds.
//!
//! The valid-history generators of the other properties are re-run with a panic-only verdict
//! (their own oracles are ignored here), once in this process (release profile) and once in a
//! child process built with debug assertions and overflow checks (profile `dbg`), plus a sub-check
//! for the documented configuration extremes.

use super::{c02, c03, c04, c05, c06, c07, c08, c09, c10, c15, c18, PropDef};
use crate::kit::report::Report;
use crate::kit::runner::{CaseInfo, Ctx, Fail, PropSub};
use crate::kit::SplitMix;
use crate::model::cpc::{simulate, CpcModel};
use datasketches::bloom::BloomFilterBuilder;
use datasketches::common::{NumStdDev, ResizeFactor};
use datasketches::countmin::CountMinSketch;
use datasketches::cpc::{CpcSketch, CpcUnion, CpcWrapper};
use datasketches::frequencies::{ErrorType, FrequentItemsSketch};
use datasketches::hll::{HllSketch, HllType, HllUnion};
use datasketches::tdigest::TDigestMut;
use datasketches::theta::{CompactThetaSketch, ThetaSketch};
use proptest::prelude::*;
use serde::{Deserialize, Serialize};

/// Keep only panics: the semantic oracles of the reused checks belong to other properties.
fn panic_only<T>(f: fn(&T, &mut CaseInfo) -> Result<(), Fail>) -> impl Fn(&T, &mut CaseInfo) -> Result<(), Fail> + Sync {
    move |c, info| match crate::kit::runner::guard(|| f(c, info)) {
        Err(e) if e.clause.starts_with("panic:") => Err(Fail { clause: format!("C17.{}", e.clause), detail: e.detail }),
        _ => Ok(()),
    }
}

#[derive(Debug, Clone, Serialize, Deserialize)]
pub enum Extreme {
    /// HLL at lg_k 21 (and 4): bursts, serialize, round-trip, union, every target type
    Hll { lg_k: u8, ty: u8, n: u32, seed: u64 },
    /// CPC at lg_k 4 / 21 (thorough: 26): simulated stream up to 2^lg_n items
    Cpc { lg_k: u8, lg_n_x4: u8, seed: u64 },
    /// theta at lg_k 5 (and 20 in thorough)
    Theta { lg_k: u8, rf: u8, p: u16, n: u32, seed: u64 },
    /// t-digest k = 10
    TDigest { n: u32, seed: u64, dup: bool, #[serde(default)] k_sel: u8 },
    /// Frequent Items with map size 8
    Fi { n: u32, seed: u64, w: u64 },
    /// Bloom with 1 bit and with_accuracy extremes
    Bloom { which: u8, seed: u64 },
    /// Count-Min 1 x 3, each counter type filled to its maximum
    CountMin { ty: u8, seed: u64 },
    /// every accessor on empty sketches of every family
    Empty { lg: u8 },
    /// an out-of-order HLL array whose raw estimate alpha k^2 / sum(2^-r) is steered to 16 k (1 - eps_ppm / 10^6),
    /// i.e. just below / at / above the top of the composite estimator's interpolation table
    HllTableTop { lg_k: u8, eps_ppm: i32, ty: u8 },
}

fn extreme_strategy(thorough: bool) -> impl Strategy<Value = Extreme> {
    let cpc_lgs = if thorough { prop_oneof![4 => Just(4u8), 1 => Just(21u8), 1 => Just(22u8)].boxed() } else { prop_oneof![6 => Just(4u8), 1 => Just(21u8)].boxed() };
    let theta_lgs = if thorough { prop_oneof![Just(5u8), Just(20u8)].boxed() } else { Just(5u8).boxed() };
    prop_oneof![
        3 => (prop_oneof![3 => Just(4u8), 1 => Just(21u8)], 0u8..3, 1u32..=400_000, any::<u64>()).prop_map(|(lg_k, ty, n, seed)| Extreme::Hll { lg_k, ty, n, seed }),
        3 => (cpc_lgs, 0u8..=120, any::<u64>()).prop_map(|(lg_k, lg_n_x4, seed)| Extreme::Cpc { lg_k, lg_n_x4, seed }),
        2 => (theta_lgs, 0u8..4, any::<u16>(), 1u32..=3_000, any::<u64>()).prop_map(|(lg_k, rf, p, n, seed)| Extreme::Theta { lg_k, rf, p, n, seed }),
        2 => (0u32..=3000, any::<u64>(), any::<bool>(), 0u8..8).prop_map(|(n, seed, dup, k_sel)| Extreme::TDigest { n, seed, dup, k_sel }),
        2 => (0u32..=2000, any::<u64>(), prop_oneof![Just(1u64), 1u64..=1_000_000_000]).prop_map(|(n, seed, w)| Extreme::Fi { n, seed, w }),
        2 => (0u8..6, any::<u64>()).prop_map(|(which, seed)| Extreme::Bloom { which, seed }),
        2 => (0u8..8, any::<u64>()).prop_map(|(ty, seed)| Extreme::CountMin { ty, seed }),
        1 => (4u8..=26).prop_map(|lg| Extreme::Empty { lg }),
        3 => (4u8..=12, prop_oneof![-50i32..=600, -5i32..=120], 0u8..3).prop_map(|(lg_k, eps_ppm, ty)| Extreme::HllTableTop { lg_k, eps_ppm, ty }),
    ]
}

const NSD: [NumStdDev; 3] = [NumStdDev::One, NumStdDev::Two, NumStdDev::Three];

fn touch_hll(s: &HllSketch) {
    let _ = (s.estimate(), s.is_empty(), s.lg_config_k(), s.target_type());
    for n in NSD {
        let _ = (s.lower_bound(n), s.upper_bound(n));
    }
    let b = s.serialize();
    if let Ok(d) = HllSketch::deserialize(&b) {
        let _ = d.estimate();
        let _ = d.serialize();
    }
}
fn touch_cpc(s: &CpcSketch) {
    let _ = (s.estimate(), s.is_empty(), s.lg_k(), s.num_coupons(), s.validate());
    for n in NSD {
        let _ = (s.lower_bound(n), s.upper_bound(n));
    }
    let b = s.serialize();
    if let Ok(d) = CpcSketch::deserialize(&b) {
        let _ = (d.estimate(), d.validate());
        let _ = d.serialize();
    }
    if let Ok(w) = CpcWrapper::new(&b) {
        let _ = (w.estimate(), w.is_empty(), w.lg_k());
        for n in NSD {
            let _ = (w.lower_bound(n), w.upper_bound(n));
        }
    }
}
fn touch_theta(s: &ThetaSketch) {
    let _ = (s.estimate(), s.is_empty(), s.lg_k(), s.theta(), s.theta64(), s.num_retained(), s.is_estimation_mode(), s.iter().count());
    for n in NSD {
        let _ = (s.lower_bound(n), s.upper_bound(n));
    }
    for ord in [false, true] {
        let c = s.compact(ord);
        let _ = (c.estimate(), c.is_empty(), c.theta(), c.is_ordered(), c.seed_hash(), c.num_retained(), c.iter().count());
        for n in NSD {
            let _ = (c.lower_bound(n), c.upper_bound(n));
        }
        for b in [c.serialize(), c.serialize_compressed()] {
            if let Ok(d) = CompactThetaSketch::deserialize(&b) {
                let _ = (d.estimate(), d.serialize(), d.serialize_compressed());
            }
        }
    }
}
fn touch_td(t: &mut TDigestMut) {
    let _ = (t.k(), t.is_empty(), t.min_value(), t.max_value(), t.total_weight());
    let _ = (t.rank(0.5), t.quantile(0.0), t.quantile(0.5), t.quantile(1.0), t.rank(f64::INFINITY), t.rank(f64::NEG_INFINITY));
    let _ = (t.cdf(&[]), t.pmf(&[]), t.cdf(&[0.5]), t.pmf(&[0.5]), t.cdf(&[0.25, 0.5]), t.pmf(&[-1.0, 0.0, 1.0]));
    let b = t.serialize();
    if let Ok(mut d) = TDigestMut::deserialize(&b, false) {
        let _ = (d.rank(0.1), d.serialize());
    }
    let f = t.clone().freeze();
    let _ = (f.k(), f.is_empty(), f.min_value(), f.max_value(), f.total_weight(), f.rank(0.3), f.quantile(0.7), f.cdf(&[]), f.pmf(&[0.1]));
    let _ = f.unfreeze();
}

fn run_extreme(c: &Extreme, info: &mut CaseInfo) -> Result<(), Fail> {
    info.nontrivial = true;
    match c {
        Extreme::Hll { lg_k, ty, n, seed } => {
            info.label(format!("hll_lg_k={lg_k}"));
            let t = [HllType::Hll4, HllType::Hll6, HllType::Hll8][*ty as usize % 3];
            let mut s = HllSketch::new(*lg_k, t);
            let mut sm = SplitMix(*seed);
            touch_hll(&s);
            let n = if *lg_k == 4 { (*n).min(5000) } else { *n };
            for i in 0..n {
                s.update(sm.next());
                if i < 20 || (i + 1).is_power_of_two() {
                    touch_hll(&s);
                }
            }
            touch_hll(&s);
            let mut u = HllUnion::new(*lg_k);
            u.update(&s);
            u.update(&s);
            u.update_value(sm.next());
            for tt in [HllType::Hll4, HllType::Hll6, HllType::Hll8] {
                touch_hll(&u.to_sketch(tt));
            }
            let _ = (u.estimate(), u.is_empty(), u.lg_config_k(), u.lg_max_k());
            for nn in NSD {
                let _ = (u.lower_bound(nn), u.upper_bound(nn));
            }
            u.reset();
        }
        Extreme::Cpc { lg_k, lg_n_x4, seed } => {
            info.label(format!("cpc_lg_k={lg_k}"));
            let lg_n = (*lg_n_x4 as f64 / 4.0).min(if *lg_k >= 21 { *lg_k as f64 + 3.6 } else { 30.0 });
            let mut s = CpcSketch::new(*lg_k);
            touch_cpc(&s);
            let mut m = CpcModel::new(if *lg_k <= 12 { *lg_k } else { 4 });
            let coupons = simulate(*lg_k, lg_n.exp2(), *seed, None);
            let total = coupons.len();
            for (i, rc) in coupons.into_iter().enumerate() {
                let rc = if rc == u32::MAX { rc ^ (1 << 6) } else { rc };
                if *lg_k <= 12 {
                    if !m.fits_capacity(rc) {
                        continue;
                    }
                    m.offer(rc);
                }
                s.verif_row_col_update(rc);
                if i < 8 || (i + 1).is_power_of_two() || i + 1 == total {
                    touch_cpc(&s);
                }
            }
            touch_cpc(&s);
            let mut u = CpcUnion::new(*lg_k);
            u.update(&s);
            touch_cpc(&u.to_sketch());
            let mut small = CpcSketch::new(4);
            small.update(1u64);
            u.update(&small);
            touch_cpc(&u.to_sketch());
            let _ = (u.lg_k(), u.num_coupons());
        }
        Extreme::Theta { lg_k, rf, p, n, seed } => {
            info.label(format!("theta_lg_k={lg_k}"));
            let rfv = [ResizeFactor::X1, ResizeFactor::X2, ResizeFactor::X4, ResizeFactor::X8][*rf as usize % 4];
            let mut s = ThetaSketch::builder().lg_k(*lg_k).resize_factor(rfv).sampling_probability(c04::p_of(*p)).build();
            touch_theta(&s);
            let mut sm = SplitMix(*seed);
            let n = if *lg_k >= 20 { *n * 1000 } else { *n };
            for i in 0..n {
                s.update(sm.next());
                if i < 10 || ((i + 1).is_power_of_two() && *lg_k < 20) {
                    touch_theta(&s);
                }
            }
            s.update_f64(1.5);
            s.update_f64(f64::NAN);
            s.update_f64(-0.0);
            s.update_f32(2.5);
            s.update("text");
            touch_theta(&s);
            s.trim();
            touch_theta(&s);
            s.reset();
            touch_theta(&s);
        }
        Extreme::TDigest { n, seed, dup, k_sel } => {
            // both ends of the documented range of k (u16, at least 10)
            let k = [10u16, 10, 10, 11, 32767, 32768, 65534, 65535][(*k_sel % 8) as usize];
            info.label(if k == 10 { "tdigest_k=10" } else if k >= 32767 { "tdigest_k>=32767" } else { "tdigest_k=11" });
            let mut t = TDigestMut::new(k);
            touch_td(&mut t);
            let mut sm = SplitMix(*seed);
            for i in 0..*n {
                let v = if *dup {
                    (sm.below(3)) as f64
                } else if *seed % 5 == 0 {
                    // both ends of the finite range
                    let s = if sm.below(2) == 0 { 1.0 } else { -1.0 };
                    s * f64::MAX * (0.5 + 0.5 * sm.unit())
                } else {
                    sm.unit() * 1e6 - 5e5
                };
                t.update(v);
                if i < 6 || (i + 1).is_power_of_two() {
                    touch_td(&mut t);
                }
            }
            t.update(f64::NAN);
            t.update(f64::INFINITY);
            touch_td(&mut t);
            let mut o = TDigestMut::new(10);
            o.update(1.0);
            t.merge(&o);
            t.merge(&TDigestMut::new(500));
            touch_td(&mut t);
            let _ = TDigestMut::try_new(10);
            let _ = TDigestMut::try_new(9);
        }
        Extreme::Fi { n, seed, w } => {
            info.label("fi_map_size=8");
            let mut f: FrequentItemsSketch<u64> = FrequentItemsSketch::new(8);
            let touch = |f: &FrequentItemsSketch<u64>| {
                let _ = (f.is_empty(), f.num_active_items(), f.total_weight(), f.maximum_error(), f.epsilon(), f.maximum_map_capacity(), f.current_map_capacity(), f.lg_max_map_size(), f.lg_cur_map_size());
                let _ = (f.estimate(&1), f.lower_bound(&1), f.upper_bound(&1));
                let _ = (f.frequent_items(ErrorType::NoFalsePositives), f.frequent_items(ErrorType::NoFalseNegatives), f.frequent_items_with_threshold(ErrorType::NoFalseNegatives, 0));
                let b = f.serialize();
                if let Ok(d) = FrequentItemsSketch::<u64>::deserialize(&b) {
                    let _ = d.serialize();
                }
            };
            touch(&f);
            let mut sm = SplitMix(*seed);
            for i in 0..*n {
                f.update_with_count(sm.below(40), *w);
                if i < 20 || (i + 1).is_power_of_two() {
                    touch(&f);
                }
            }
            f.update_with_count(7, 0);
            touch(&f);
            let mut g: FrequentItemsSketch<u64> = FrequentItemsSketch::new(8);
            g.merge(&f);
            g.merge(&FrequentItemsSketch::new(2048));
            touch(&g);
            g.reset();
            touch(&g);
            let _ = FrequentItemsSketch::<u64>::epsilon_for_lg(3);
            let _ = FrequentItemsSketch::<u64>::apriori_error(3, 1000);
        }
        Extreme::Bloom { which, seed } => {
            info.label(format!("bloom_extreme={which}"));
            // thorough tier, once per process: a filter of more than 2^32 bits (legal up to about 2^37) whose set
            // operations and dirty-image recount run past 2^32 set bits
            static HUGE_DONE: std::sync::atomic::AtomicBool = std::sync::atomic::AtomicBool::new(false);
            if std::env::var("VERIF_TIER_HINT").map(|t| t == "thorough").unwrap_or(false) && !HUGE_DONE.swap(true, std::sync::atomic::Ordering::SeqCst) {
                info.label("bloom_2^32_bits");
                let n = (1u64 << 32) + 64;
                let mut a = BloomFilterBuilder::with_size(n, 1).seed(*seed).build();
                a.insert(1u64);
                a.invert();
                let b = BloomFilterBuilder::with_size(n, 1).seed(*seed).build();
                let mut u = a.clone();
                u.union(&b);
                let _ = (u.bits_used(), u.load_factor(), u.estimated_fpp(), u.is_empty());
                u.intersect(&a);
                let _ = u.bits_used();
                drop(u);
                // the same filter as a Java / C++ writer with a dirty count would emit it
                let mut img = a.serialize();
                img[24..32].copy_from_slice(&u64::MAX.to_le_bytes());
                drop(a);
                if let Ok(d) = datasketches::bloom::BloomFilter::deserialize(&img) {
                    let _ = (d.bits_used(), d.is_empty());
                }
            }
            let mut f = match which % 6 {
                0 => BloomFilterBuilder::with_size(1, 1).seed(*seed).build(),
                1 => BloomFilterBuilder::with_size(1, 16).build(),
                2 => BloomFilterBuilder::with_accuracy(1, 1.0).build(),
                3 => BloomFilterBuilder::with_accuracy(1, 1e-300).build(),
                4 => BloomFilterBuilder::with_accuracy(1_000_000, 1e-9).build(),
                _ => BloomFilterBuilder::with_size(65, 32767).build(),
            };
            let mut sm = SplitMix(*seed);
            let touch = |f: &datasketches::bloom::BloomFilter| {
                let _ = (f.is_empty(), f.bits_used(), f.capacity(), f.num_hashes(), f.seed(), f.load_factor(), f.estimated_fpp(), f.contains(&1u64));
                let b = f.serialize();
                if f.capacity() <= 1 << 20 {
                    if let Ok(d) = datasketches::bloom::BloomFilter::deserialize(&b) {
                        let _ = d.serialize();
                    }
                }
            };
            touch(&f);
            for _ in 0..50 {
                f.insert(sm.next());
                let _ = f.contains_and_insert(&sm.next());
            }
            touch(&f);
            let g = f.clone();
            f.union(&g);
            f.intersect(&g);
            f.invert();
            touch(&f);
            f.reset();
            touch(&f);
            let _ = (
                BloomFilterBuilder::suggest_num_bits(1, 1.0),
                BloomFilterBuilder::suggest_num_bits(u64::MAX, 1e-300),
                BloomFilterBuilder::suggest_num_hashes_from_accuracy(1, 1),
                BloomFilterBuilder::suggest_num_hashes_from_accuracy(u64::MAX, 1),
                BloomFilterBuilder::suggest_num_hashes_from_fpp(1.0),
                BloomFilterBuilder::suggest_num_hashes_from_fpp(1e-300),
            );
        }
        Extreme::CountMin { ty, seed } => {
            info.label(format!("countmin_1x3_type={ty}"));
            fn go<T: c08::Cnt>(seed: u64) {
                let mut s = CountMinSketch::<T>::with_seed(1, 3, 9001);
                let mut sm = SplitMix(seed);
                let _ = (s.is_empty(), s.total_weight(), s.relative_error(), s.estimate(1u64), s.upper_bound(1u64), s.lower_bound(1u64));
                // fill to exactly the type maximum
                let mut left = T::MAXV;
                while left > 0 {
                    let w = 1 + sm.below(left.min(1 + left / 3));
                    s.update_with_weight(sm.below(5), T::from_u64(w));
                    left -= w;
                }
                let _ = (s.is_empty(), s.total_weight(), s.estimate(1u64), s.lower_bound(1u64), s.upper_bound(1u64), s.upper_bound(4u64));
                let b = s.serialize();
                if let Ok(d) = CountMinSketch::<T>::deserialize(&b) {
                    let _ = d.serialize();
                }
                T::sk_halve(&mut s);
                T::sk_decay(&mut s, 0.5);
                T::sk_decay(&mut s, 1.0);
                let mut e = CountMinSketch::<T>::with_seed(1, 3, 9001);
                e.merge(&s);
                let _ = e.serialize();
            }
            match ty % 8 {
                0 => go::<u8>(*seed),
                1 => go::<u16>(*seed),
                2 => go::<u32>(*seed),
                3 => go::<u64>(*seed),
                4 => go::<i8>(*seed),
                5 => go::<i16>(*seed),
                6 => go::<i32>(*seed),
                _ => go::<i64>(*seed),
            }
            let _ = (
                CountMinSketch::<u64>::suggest_num_buckets(0.5),
                CountMinSketch::<u64>::suggest_num_hashes(0.0),
                CountMinSketch::<u64>::suggest_num_hashes(1.0),
                CountMinSketch::<u64>::suggest_num_hashes(0.999999),
            );
        }
        Extreme::HllTableTop { lg_k, eps_ppm, ty } => {
            info.label("hll_raw_estimate_at_table_top");
            let k = 1usize << lg_k;
            let alpha = match k {
                16 => 0.673,
                32 => 0.697,
                64 => 0.709,
                _ => 0.7213 / (1.0 + 1.079 / k as f64),
            };
            let raw = 16.0 * k as f64 * (1.0 - *eps_ppm as f64 * 1e-6);
            let target = alpha * (k * k) as f64 / raw;
            // k inverse powers of two (register values 1..=60) summing to the target: binary expansion, then
            // split terms (2^-r = 2 * 2^-(r+1)) until there are k of them
            let mut regs: Vec<u8> = vec![];
            let mut rest = target;
            for r in 1..=50u8 {
                let t = (-(r as f64)).exp2();
                while rest >= t && regs.len() < k {
                    regs.push(r);
                    rest -= t;
                }
            }
            regs.sort_unstable();
            while regs.len() < k {
                let r = regs.remove(0);
                if r >= 60 {
                    regs.insert(0, r);
                    break;
                }
                regs.push(r + 1);
                regs.push(r + 1);
                regs.sort_unstable();
            }
            if regs.len() == k {
                let mut s = HllSketch::new(*lg_k, [HllType::Hll4, HllType::Hll6, HllType::Hll8][(*ty % 3) as usize]);
                for (slot, r) in regs.iter().enumerate() {
                    s.verif_update_with_coupon(((*r as u32) << 26) | slot as u32);
                }
                let mut u = HllUnion::new(*lg_k);
                u.update(&s);
                let _ = (u.estimate(), u.lower_bound(NumStdDev::Two), u.upper_bound(NumStdDev::Two));
                for t in [HllType::Hll4, HllType::Hll6, HllType::Hll8] {
                    touch_hll(&u.to_sketch(t));
                }
            }
        }
        Extreme::Empty { lg } => {
            info.label("empty_sketches");
            if (4..=21).contains(lg) {
                for t in [HllType::Hll4, HllType::Hll6, HllType::Hll8] {
                    touch_hll(&HllSketch::new(*lg, t));
                }
                let u = HllUnion::new(*lg);
                for t in [HllType::Hll4, HllType::Hll6, HllType::Hll8] {
                    touch_hll(&u.to_sketch(t));
                }
            }
            if *lg <= 22 {
                touch_cpc(&CpcSketch::new(*lg));
                touch_cpc(&CpcUnion::new(*lg).to_sketch());
                let _ = CpcSketch::max_serialized_bytes(*lg);
            }
            let _ = CpcSketch::max_serialized_bytes((*lg).max(4));
            if (5..=20).contains(lg) {
                touch_theta(&ThetaSketch::builder().lg_k(*lg).build());
            }
            touch_td(&mut TDigestMut::new(10 + *lg as u16));
            let f: FrequentItemsSketch<String> = FrequentItemsSketch::new(1 << (*lg).clamp(3, 11));
            let _ = (f.serialize(), f.frequent_items(ErrorType::NoFalsePositives), f.estimate(&"x".to_string()));
        }
    }
    Ok(())
}

macro_rules! reuse {
    ($name:expr, $rule:expr, $q:expr, $t:expr, $strat:expr, $f:expr) => {
        Box::new(PropSub {
            name: $name,
            rule: $rule,
            cases_quick: $q,
            cases_thorough: $t,
            max_shrink_iters: 800,
            limit_factor: 1,
            strategy: $strat,
            check: panic_only($f),
        })
    };
}

pub fn def() -> PropDef {
    PropDef {
        id: "C17",
        assumptions: vec![
            "only calls whose documented preconditions hold are generated (the reused generators are sound for their families); only panics originating in the call are counted, oracle failures belong to the other properties",
            "the child process is the same harness built with debug-assertions and overflow-checks on (cargo profile dbg)",
        ],
        subs: vec![
            reuse!("hll_histories", "C02 generator (lg_k 4..=21), panic-only verdict; non-trivial as in C02", 2_500, 30_000, || c02::case_strategy(true), c02::run_case),
            reuse!("hll_unions", "C03 generator, panic-only verdict", 10_000, 150_000, c03::case_strategy, c03::run_case),
            reuse!("theta_histories", "C04 generator (lg_k 5..=12), panic-only verdict", 6_000, 60_000, || c04::case_strategy(12, 1500), c04::run_case),
            reuse!("cpc_streams", "C05 generator (lg_k 4..=12), panic-only verdict", 3_000, 40_000, || c05::case_strategy(4, 12, 10), c05::run_case),
            reuse!("cpc_unions", "C06 generator, panic-only verdict", 6_000, 60_000, c06::case_strategy, c06::run_case),
            reuse!("frequent_items", "C07 generator (mixed sizes), panic-only verdict", 6_000, 60_000, || c07::case_strategy(false), c07::run_case),
            reuse!("countmin", "C08 generator (all counter types, totals up to the type maximum), panic-only verdict", 8_000, 100_000, c08::case_strategy, c08::run_case),
            reuse!("bloom", "C09 generator, panic-only verdict", 6_000, 80_000, c09::case_strategy, c09::run_case),
            reuse!("tdigest_histories", "C10 history generator incl. empty and one-element split points, panic-only verdict", 8_000, 100_000, || c10::case_strategy(3000), c10::run_case),
            reuse!("tdigest_foreign_images", "C10 foreign-image generator, panic-only verdict", 30_000, 300_000, c10::image_case, c10::run_image),
            reuse!("tdigest_long", "C15 generator, panic-only verdict", 1_500, 15_000, || c15::case_strategy(20_000, 6), c15::run_case),
            reuse!("hll_sizes", "C18 HLL generator with serialize at many prefixes, panic-only verdict", 4_000, 40_000, c18::hll_case, c18::hll_sizes),
            reuse!("theta_sizes", "C18 theta generator, panic-only verdict", 1_000, 10_000, c18::theta_case, c18::theta_sizes),
            reuse!("misc_sizes", "C18 FI / Bloom / Count-Min / t-digest generator, panic-only verdict", 1_000, 10_000, c18::misc_case, c18::misc_sizes),
            Box::new(PropSub {
                name: "extremes",
                rule: "documented configuration extremes: HLL lg_k 4 and 21 (x3 types, up to 400k items, unions, every target type), CPC lg_k 4 and 21 (thorough: 22) driven through every flavor by simulated streams up to 2^24.6 items (lg_k 4: 2^30) with serialize / deserialize / wrapper / union at every power of two, theta lg_k 5 (thorough: 20) with every resize factor and sampling, t-digest k = 10 with empty / one-element / longer split points, Frequent Items map size 8 with weights up to 1e9, Bloom with 1 bit / 32767 hashes / with_accuracy extremes, Count-Min 1 x 3 of every counter type filled to exactly its maximum, every accessor and all three NumStdDev on empty sketches; every case non-trivial",
                cases_quick: 800,
                cases_thorough: 8_000,
                max_shrink_iters: 200,
                limit_factor: 1,
                strategy: || extreme_strategy(false),
                check: |c: &Extreme, info: &mut CaseInfo| match crate::kit::runner::guard(|| run_extreme(c, info)) {
                    Err(e) if e.clause.starts_with("panic:") => Err(Fail { clause: format!("C17.{}", e.clause), detail: e.detail }),
                    _ => Ok(()),
                },
            }),
        ],
        post: Some(run_dbg_child),
    }
}

/// Run the same property in the `dbg` build (debug assertions + overflow checks) and merge.
fn run_dbg_child(ctx: &Ctx, rep: &mut Report) {
    if ctx.profile == "dbg" {
        return;
    }
    let root = crate::verif_root();
    let bin = super::c14::worker_bin("dbg");
    if !std::path::Path::new(&bin).exists() {
        if let Some(s) = rep.subs.first_mut() {
            s.inconclusive.push(format!("{bin} is missing: the debug-assertions pass did not run (./check builds it)"));
        }
        return;
    }
    let out = format!("{}/c17-dbg-{}.json", std::env::temp_dir().to_string_lossy(), std::process::id());
    let _ = &root;
    let status = std::process::Command::new(&bin)
        .arg("C17")
        .arg(ctx.tier.as_str())
        .arg("--seed")
        .arg(ctx.seed.to_string())
        .arg("--partial-out")
        .arg(&out)
        .env("VERIF_SCALE", (ctx.scale * 0.5).to_string())
        .status();
    match status {
        Ok(st) if st.success() => match std::fs::read(&out).ok().and_then(|b| serde_json::from_slice::<Report>(&b).ok()) {
            Some(child) => {
                for mut s in child.subs {
                    s.name = format!("{}[dbg]", s.name);
                    for v in s.violations.iter_mut() {
                        v.sub = format!("{}[dbg]", v.sub);
                        v.detail = format!("[debug-assertions + overflow-checks build] {}", v.detail);
                    }
                    rep.subs.push(s);
                }
            }
            None => {
                if let Some(s) = rep.subs.first_mut() {
                    s.inconclusive.push("could not read the dbg child's report".into());
                }
            }
        },
        other => {
            if let Some(s) = rep.subs.first_mut() {
                s.inconclusive.push(format!("dbg child failed: {other:?}"));
            }
        }
    }
    let _ = std::fs::remove_file(&out);
}
