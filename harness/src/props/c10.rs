//! C10 - t-digest rank and quantile are monotone, in range and mutually consistent.

use super::PropDef;
use crate::kit::runner::{CaseInfo, Fail, PropSub};
use crate::kit::{pick_idx, SplitMix};
use crate::spec::tdigest as spec;
use datasketches::tdigest::TDigestMut;
use proptest::prelude::*;
use serde::{Deserialize, Serialize};

#[derive(Debug, Clone, Serialize, Deserialize)]
pub enum Shape {
    Uniform,
    Sorted,
    Reversed,
    /// few distinct values
    Dups(u8),
    /// tight clusters
    Clustered(u8),
    /// log-uniform over the given number of decades (both signs)
    LogUniform(u16),
    /// one value carrying `pct` percent of the stream inside a cloud of distinct values (uniform over [0,1), or,
    /// for odd pct, concentrated within 1e-3 of the atom): rank / quantile next to a heavy atom
    AtomInCloud(u8),
    /// both ends of the finite f64 range (|v| within a few binades of f64::MAX, both signs, +-MAX itself), mixed
    /// with a few small values: differences and sums of neighbouring values overflow. Not scaled or shifted.
    Extreme,
}

#[derive(Debug, Clone, Serialize, Deserialize)]
pub struct Run {
    pub shape: Shape,
    pub n: u32,
    pub seed: u64,
    /// values are multiplied by 10^exp10
    pub exp10: i16,
    /// and shifted by shift * 10^exp10
    pub shift: i8,
}

pub fn shape_strategy() -> impl Strategy<Value = Shape> {
    prop_oneof![
        4 => Just(Shape::Uniform),
        2 => Just(Shape::Sorted),
        2 => Just(Shape::Reversed),
        3 => (1u8..=12).prop_map(Shape::Dups),
        2 => (1u8..=8).prop_map(Shape::Clustered),
        1 => (1u16..=40).prop_map(Shape::LogUniform),
        1 => Just(Shape::Extreme),
        2 => (2u8..=90).prop_map(Shape::AtomInCloud),
    ]
}

pub fn run_strategy(max_n: u32) -> impl Strategy<Value = Run> {
    (
        shape_strategy(),
        prop_oneof![3 => 1u32..=40, 3 => 1u32..=max_n],
        any::<u64>(),
        prop_oneof![4 => Just(0i16), 2 => -6i16..=6, 1 => -300i16..=300],
        any::<i8>(),
    )
        .prop_map(|(shape, n, seed, exp10, shift)| Run { shape, n, seed, exp10, shift })
}

pub fn gen_values(r: &Run) -> Vec<f64> {
    let mut sm = SplitMix(r.seed);
    let n = r.n as usize;
    let scale = 10f64.powi(r.exp10 as i32);
    let shift = r.shift as f64;
    let mut out = Vec::with_capacity(n);
    match &r.shape {
        Shape::Uniform => {
            for _ in 0..n {
                out.push(sm.unit());
            }
        }
        Shape::Sorted => {
            for i in 0..n {
                out.push(i as f64 / n as f64);
            }
        }
        Shape::Reversed => {
            for i in (0..n).rev() {
                out.push(i as f64 / n as f64);
            }
        }
        Shape::Dups(m) => {
            // odd m: dyadic values k/16; even m: arbitrary (non-dyadic) values such as 0.1 - averages of equal
            // non-dyadic values need not be representable exactly
            let dyadic = m % 2 == 1;
            let vals: Vec<f64> = (0..*m).map(|_| if dyadic { (sm.unit() * 16.0).floor() / 16.0 } else { (sm.unit() * 1000.0).floor() / 1000.0 + 0.1 }).collect();
            for _ in 0..n {
                out.push(vals[sm.below(*m as u64) as usize]);
            }
        }
        Shape::Clustered(m) => {
            let centers: Vec<f64> = (0..*m).map(|_| sm.unit()).collect();
            for _ in 0..n {
                let c = centers[sm.below(*m as u64) as usize];
                out.push(c + (sm.unit() - 0.5) * 1e-6);
            }
        }
        Shape::LogUniform(dec) => {
            for _ in 0..n {
                let e = (sm.unit() - 0.5) * *dec as f64;
                let s = if sm.below(2) == 0 { 1.0 } else { -1.0 };
                out.push(s * 10f64.powf(e));
            }
        }
        Shape::AtomInCloud(pct) => {
            let atom = (sm.unit() * 16.0).floor() / 16.0 + 1.0 / 32.0;
            for _ in 0..n {
                if sm.below(100) < *pct as u64 {
                    out.push(atom);
                } else if pct % 2 == 1 {
                    out.push(atom + (sm.unit() - 0.5) * 2e-3);
                } else {
                    out.push(sm.unit());
                }
            }
        }
        Shape::Extreme => {
            // mode 0: only |v| in (MAX/2, MAX], both signs (every negative/positive pair differs by more than
            // f64::MAX, nothing in between); mode 1: a few binades below MAX; mode 2: plus a few small values in
            // between; mode 3: many copies of +-MAX itself
            let mode = sm.below(4);
            for _ in 0..n {
                let s = if sm.below(2) == 0 { 1.0 } else { -1.0 };
                let top = s * f64::MAX * (0.5 + 0.5 * sm.unit());
                let band = top / (1u64 << sm.below(3)) as f64;
                let v = match (mode, sm.below(8)) {
                    (0, _) => top,
                    (2, 5) => s * sm.unit(),
                    (2, 6) => s * f64::MAX,
                    (2, 7) => s * 1e300 * sm.unit(),
                    (3, 4..=7) => s * f64::MAX,
                    _ => band,
                };
                out.push(v);
            }
            return out;
        }
    }
    for v in out.iter_mut() {
        let x = (*v + shift) * scale;
        *v = if x.is_finite() { x } else { 0.0 };
    }
    out
}

#[derive(Debug, Clone, Serialize, Deserialize)]
pub enum Step {
    Run(Run),
    /// merge the i-th side digest (built from its own runs) into the main one
    Merge(u8),
    FreezeUnfreeze,
    RoundTrip,
    Queries,
}

#[derive(Debug, Clone, Serialize, Deserialize)]
pub struct Case {
    pub k: u16,
    pub steps: Vec<Step>,
    pub sides: Vec<(u16, Vec<Run>)>,
    pub qseed: u64,
}

pub fn k_strategy() -> impl Strategy<Value = u16> {
    prop_oneof![2 => Just(10u16), 4 => 10u16..=60, 3 => 10u16..=500, 1 => Just(200u16)]
}

pub fn case_strategy(max_n: u32) -> impl Strategy<Value = Case> {
    (
        k_strategy(),
        proptest::collection::vec(
            prop_oneof![
                6 => run_strategy(max_n).prop_map(Step::Run),
                2 => any::<u8>().prop_map(Step::Merge),
                1 => Just(Step::FreezeUnfreeze),
                1 => Just(Step::RoundTrip),
                2 => Just(Step::Queries),
            ],
            1..10,
        ),
        proptest::collection::vec((k_strategy(), proptest::collection::vec(run_strategy(max_n), 0..3)), 0..3),
        any::<u64>(),
    )
        .prop_map(|(k, steps, sides, qseed)| Case { k, steps, sides, qseed })
}

/// What is known exactly about the digest under test.
pub struct Known {
    pub total: u64,
    pub min: f64,
    pub max: f64,
}

pub struct BatteryStats {
    pub centroids: usize,
    pub heavy_tail: bool,
    pub worst_rq: f64,
}

fn ulp_up(x: f64) -> f64 {
    if x == 0.0 {
        return f64::MIN_POSITIVE;
    }
    let b = x.to_bits();
    f64::from_bits(if x > 0.0 { b + 1 } else { b - 1 })
}
fn ulp_down(x: f64) -> f64 {
    -ulp_up(-x)
}

/// The query battery. `grid` = number of grid points for q and v.
pub fn battery(td: &mut TDigestMut, known: &Known, grid: usize, qseed: u64, ctx: &str) -> Result<BatteryStats, Fail> {
    ensure!(td.total_weight() == known.total, "C10.total_weight", "{ctx}: total_weight {} but {} finite values were offered", td.total_weight(), known.total);
    if known.total == 0 {
        ensure!(td.is_empty(), "C10.is_empty", "{ctx}: not empty after zero values");
        ensure!(td.rank(0.0).is_none() && td.quantile(0.5).is_none() && td.min_value().is_none(), "C10.empty_queries", "{ctx}: empty digest answers queries");
        return Ok(BatteryStats { centroids: 0, heavy_tail: false, worst_rq: 0.0 });
    }
    ensure!(td.min_value() == Some(known.min), "C10.min", "{ctx}: min_value {:?} but exact min {}", td.min_value(), known.min);
    ensure!(td.max_value() == Some(known.max), "C10.max", "{ctx}: max_value {:?} but exact max {}", td.max_value(), known.max);
    let (min, max) = (known.min, known.max);
    let img = spec::decode(&td.serialize(), false).map_err(|e| Fail { clause: "C10.image_layout".into(), detail: format!("{ctx}: {e}") })?;
    let cents = &img.centroids;
    let w_total = known.total as f64;
    let mag = min.abs().max(max.abs());
    let span = max - min;
    let vtol = mag * 1e-12 + span * 1e-9;

    // ---- rank over v
    let mut vs: Vec<f64> = vec![min, max, ulp_up(min), ulp_down(max)];
    for i in 0..=grid {
        vs.push(min + span * (i as f64 / grid as f64));
    }
    for &(m, _) in cents.iter() {
        vs.push(m);
        vs.push(ulp_up(m));
        vs.push(ulp_down(m));
    }
    vs.retain(|v| v.is_finite() && *v >= min && *v <= max);
    vs.sort_by(|a, b| a.partial_cmp(b).unwrap());
    vs.dedup();
    let mut prev = -1.0f64;
    let mut prev_v = f64::NAN;
    let mut ranks = Vec::with_capacity(vs.len());
    for &v in &vs {
        let r = td.rank(v).ok_or_else(|| Fail { clause: "C10.rank_none".into(), detail: format!("{ctx}: rank({v}) is None") })?;
        ensure!(r.is_finite() && (-1e-12..=1.0 + 1e-12).contains(&r), "C10.rank_range", "{ctx}: rank({v}) = {r} outside [0, 1] (min {min}, max {max}, W {w_total})");
        ensure!(r >= prev - 1e-12, "C10.rank_monotone", "{ctx}: rank({prev_v}) = {prev} > rank({v}) = {r}");
        prev = r;
        prev_v = v;
        ranks.push(r);
    }
    let below = ulp_down(min);
    let above = ulp_up(max);
    if below.is_finite() {
        ensure!(td.rank(below) == Some(0.0), "C10.rank_below_min", "{ctx}: rank just below min = {:?}", td.rank(below));
    }
    if above.is_finite() {
        ensure!(td.rank(above) == Some(1.0), "C10.rank_above_max", "{ctx}: rank just above max = {:?}", td.rank(above));
    }
    ensure!(td.rank(f64::NEG_INFINITY) == Some(0.0) && td.rank(f64::INFINITY) == Some(1.0), "C10.rank_infinity", "{ctx}: rank(+-inf)");

    // ---- quantile over q
    let mut qs: Vec<f64> = vec![0.0, 1.0, 1.0 / w_total, 1.0 - 1.0 / w_total, 0.5];
    for i in 0..=grid {
        qs.push(i as f64 / grid as f64);
    }
    let mut sm = SplitMix(qseed);
    for _ in 0..grid / 4 {
        qs.push(sm.unit());
    }
    qs.retain(|q| (0.0..=1.0).contains(q));
    qs.sort_by(|a, b| a.partial_cmp(b).unwrap());
    qs.dedup();
    let mut prev = f64::NEG_INFINITY;
    let mut prev_q = f64::NAN;
    let mut worst_rq = 0.0f64;
    for &q in &qs {
        let x = td.quantile(q).ok_or_else(|| Fail { clause: "C10.quantile_none".into(), detail: format!("{ctx}: quantile({q}) is None") })?;
        ensure!(x.is_finite() && x >= min - vtol && x <= max + vtol, "C10.quantile_range", "{ctx}: quantile({q}) = {x} outside [min {min}, max {max}]");
        ensure!(x >= prev - vtol, "C10.quantile_monotone", "{ctx}: quantile({prev_q}) = {prev} > quantile({q}) = {x} ({} centroids, W {w_total})", cents.len());
        prev = x;
        prev_q = q;
        // mutual consistency
        let xc = x.clamp(min, max);
        let r = td.rank(xc).unwrap();
        let idx = cents.partition_point(|c| c.0 < xc);
        let lo = idx.saturating_sub(2);
        let hi = (idx + 2).min(cents.len().saturating_sub(1));
        let mut wsum: f64 = cents[lo..=hi].iter().map(|c| c.1 as f64).sum();
        // atoms: centroids whose mean equals x up to rounding (the interpolation between two equal
        // means may land one ulp beside them); runs of equal means may be longer than the window
        let mut j = hi + 1;
        while j < cents.len() && (cents[j].0 - xc).abs() <= vtol {
            wsum += cents[j].1 as f64;
            j += 1;
        }
        let mut j = lo;
        while j > 0 && (cents[j - 1].0 - xc).abs() <= vtol {
            wsum += cents[j - 1].1 as f64;
            j -= 1;
        }
        let tol = (wsum + 1.0) / w_total;
        let d = (r - q).abs();
        worst_rq = worst_rq.max(d / tol);
        ensure!(
            d <= tol,
            "C10.rank_quantile_inconsistent",
            "{ctx}: quantile({q}) = {x} but rank of it = {r}; |diff| {d} > resolution {tol} ({} centroids, W {w_total})",
            cents.len()
        );
    }
    ensure!(td.quantile(0.0) == Some(min), "C10.quantile_0", "{ctx}: quantile(0) = {:?} but min = {min}", td.quantile(0.0));
    ensure!(td.quantile(1.0) == Some(max), "C10.quantile_1", "{ctx}: quantile(1) = {:?} but max = {max}", td.quantile(1.0));

    // ---- cdf / pmf
    let empty: [f64; 0] = [];
    let c0 = td.cdf(&empty);
    ensure!(c0 == Some(vec![1.0]), "C10.cdf_empty_split_points", "{ctx}: cdf(&[]) = {c0:?}");
    let p0 = td.pmf(&empty);
    ensure!(p0 == Some(vec![1.0]), "C10.pmf_empty_split_points", "{ctx}: pmf(&[]) = {p0:?}");
    let mut sps: Vec<Vec<f64>> = vec![vec![min], vec![max], vec![(min + max) / 2.0]];
    let mut sp: Vec<f64> = (0..12).map(|_| vs[sm.below(vs.len() as u64) as usize]).collect();
    sp.sort_by(|a, b| a.partial_cmp(b).unwrap());
    sp.dedup();
    sps.push(sp);
    // infinite split points are sorted, unique and not NaN: valid (rank(+inf) = 1, rank(-inf) = 0)
    sps.push(vec![f64::INFINITY]);
    sps.push(vec![f64::NEG_INFINITY]);
    sps.push(vec![f64::NEG_INFINITY, f64::INFINITY]);
    sps.push(vec![f64::NEG_INFINITY, (min + max) / 2.0, f64::INFINITY]);
    for sp in &sps {
        if sp.iter().any(|x| x.is_nan()) || sp.windows(2).any(|w| !(w[0] < w[1])) {
            continue;
        }
        let cdf = td.cdf(sp).ok_or_else(|| Fail { clause: "C10.cdf_none".into(), detail: format!("{ctx}: cdf is None") })?;
        ensure!(cdf.len() == sp.len() + 1, "C10.cdf_len", "{ctx}: cdf has {} entries for {} split points", cdf.len(), sp.len());
        for (i, &s) in sp.iter().enumerate() {
            let r = td.rank(s).unwrap();
            ensure!(cdf[i] == r, "C10.cdf_vs_rank", "{ctx}: cdf[{i}] = {} but rank({s}) = {r}", cdf[i]);
        }
        ensure!(cdf[sp.len()] == 1.0, "C10.cdf_last", "{ctx}: last cdf entry {}", cdf[sp.len()]);
        let pmf = td.pmf(sp).ok_or_else(|| Fail { clause: "C10.pmf_none".into(), detail: format!("{ctx}: pmf is None") })?;
        ensure!(pmf.len() == sp.len() + 1, "C10.pmf_len", "{ctx}: pmf has {} entries", pmf.len());
        let sum: f64 = pmf.iter().sum();
        ensure!((sum - 1.0).abs() <= 1e-9, "C10.pmf_sum", "{ctx}: pmf sums to {sum}");
        ensure!(pmf.iter().all(|&p| p >= -1e-12), "C10.pmf_negative", "{ctx}: pmf has a negative mass {pmf:?}");
    }
    let heavy_tail = cents.len() >= 2 && (cents[0].1 > 1 || cents[cents.len() - 1].1 > 1);
    Ok(BatteryStats { centroids: cents.len(), heavy_tail, worst_rq })
}

pub fn run_case(c: &Case, info: &mut CaseInfo) -> Result<(), Fail> {
    let mut td = TDigestMut::new(c.k);
    let mut known = Known { total: 0, min: f64::INFINITY, max: f64::NEG_INFINITY };
    let grid = 120;
    // side digests
    let mut sides: Vec<(TDigestMut, Known)> = vec![];
    for (k, runs) in &c.sides {
        let mut t = TDigestMut::new(*k);
        let mut kn = Known { total: 0, min: f64::INFINITY, max: f64::NEG_INFINITY };
        for r in runs {
            for v in gen_values(r) {
                t.update(v);
                kn.total += 1;
                kn.min = kn.min.min(v);
                kn.max = kn.max.max(v);
            }
        }
        sides.push((t, kn));
    }
    let mut merged = false;
    let mut tripped = false;
    let mut stats = BatteryStats { centroids: 0, heavy_tail: false, worst_rq: 0.0 };
    let mut nonfinite_offered = 0u64;
    for (i, st) in c.steps.iter().enumerate() {
        let ctx = format!("after step #{i} {:?} (k {})", st, c.k);
        match st {
            Step::Run(r) => {
                for v in gen_values(r) {
                    td.update(v);
                    known.total += 1;
                    known.min = known.min.min(v);
                    known.max = known.max.max(v);
                }
                // non-finite values are documented to be ignored
                td.update(f64::NAN);
                td.update(f64::INFINITY);
                td.update(f64::NEG_INFINITY);
                nonfinite_offered += 3;
                continue;
            }
            Step::Merge(j) => {
                if sides.is_empty() {
                    continue;
                }
                let j = pick_idx((*j as u16) << 8, sides.len());
                td.merge(&sides[j].0);
                known.total += sides[j].1.total;
                known.min = known.min.min(sides[j].1.min);
                known.max = known.max.max(sides[j].1.max);
                merged |= sides[j].1.total > 0;
            }
            Step::FreezeUnfreeze => {
                let frozen = td.clone().freeze();
                // the frozen view answers the same
                if known.total > 0 {
                    let mid = (known.min + known.max) / 2.0;
                    if mid.is_finite() {
                        let (a, b) = (frozen.rank(mid), td.rank(mid));
                        ensure!(a == b, "C10.freeze.rank", "{ctx}: frozen rank {a:?} vs mutable {b:?}");
                    }
                    let (a, b) = (frozen.quantile(0.3), td.quantile(0.3));
                    ensure!(a == b, "C10.freeze.quantile", "{ctx}: frozen quantile {a:?} vs mutable {b:?}");
                    ensure!(frozen.cdf(&[]) == Some(vec![1.0]), "C10.cdf_empty_split_points", "{ctx}: frozen cdf(&[]) = {:?}", frozen.cdf(&[]));
                }
                ensure!(frozen.total_weight() == known.total, "C10.freeze.total_weight", "{ctx}: frozen total {}", frozen.total_weight());
                td = frozen.unfreeze();
            }
            Step::RoundTrip => {
                let bytes = td.serialize();
                td = TDigestMut::deserialize(&bytes, false).map_err(|e| Fail { clause: "C10.roundtrip_rejected".into(), detail: format!("{ctx}: {e}") })?;
                tripped = true;
            }
            Step::Queries => {}
        }
        stats = battery(&mut td, &known, grid, c.qseed ^ i as u64, &ctx)?;
    }
    stats = {
        let s2 = battery(&mut td, &known, grid, c.qseed, "final state")?;
        BatteryStats { worst_rq: stats.worst_rq.max(s2.worst_rq), ..s2 }
    };
    info.nontrivial = stats.centroids >= 3 && (merged || tripped || stats.heavy_tail);
    if merged {
        info.label("merged");
    }
    if tripped {
        info.label("round_tripped");
    }
    if stats.heavy_tail {
        info.label("heavy_tail_centroid");
    }
    if known.total > 4 * (2 * c.k as u64 + 30) {
        info.label("compressed_at_least_once");
    }
    info.label(format!("rq_ratio<={}", if stats.worst_rq <= 0.25 { "0.25" } else if stats.worst_rq <= 0.5 { "0.5" } else if stats.worst_rq <= 0.75 { "0.75" } else { "1.0" }));
    info.sum("nonfinite_values_offered", nonfinite_offered as f64);
    Ok(())
}

// ---------------------------------------------------------------------------------------------
// spec-encoded images with centroid lists the in-process algorithm would never produce

#[derive(Debug, Clone, Serialize, Deserialize)]
pub struct ImageCase {
    pub k: u16,
    /// 0 double, 1 float, 2 compat double, 3 compat float
    pub enc: u8,
    pub reverse_merge: bool,
    /// first mean and non-negative steps (as f32 so that every encoding represents them exactly)
    pub start: f32,
    pub steps: Vec<f32>,
    pub weights: Vec<u32>,
    pub min_gap: f32,
    pub max_gap: f32,
    pub buffered: Vec<u16>,
    pub qseed: u64,
    /// 6 / 7: every value of the image is multiplied by the power of two that brings the largest magnitude just
    /// below the maximum of the value type (f32 / f64), resp. half of it; other values: unscaled
    #[serde(default)]
    pub range_sel: u8,
}

pub fn image_case() -> impl Strategy<Value = ImageCase> {
    (
        k_strategy(),
        0u8..4,
        any::<bool>(),
        prop_oneof![Just(0.0f32), -1000.0f32..1000.0],
        proptest::collection::vec(prop_oneof![3 => 0.001f32..10.0, 1 => Just(0.0f32), 1 => 10.0f32..1e6], 0..40),
        proptest::collection::vec(prop_oneof![4 => 1u32..=4, 2 => 1u32..=60, 1 => 100u32..=5000], 41),
        prop_oneof![1 => Just(0.0f32), 3 => 0.001f32..100.0],
        prop_oneof![1 => Just(0.0f32), 3 => 0.001f32..100.0],
        proptest::collection::vec(any::<u16>(), 0..6),
        (any::<u64>(), 0u8..8),
    )
        .prop_map(|(k, enc, reverse_merge, start, steps, weights, min_gap, max_gap, buffered, (qseed, range_sel))| ImageCase {
            k,
            enc,
            reverse_merge,
            start,
            steps,
            weights,
            min_gap,
            max_gap,
            buffered,
            qseed,
            range_sel,
        })
}

pub fn build_image(c: &ImageCase) -> (spec::TdImage, spec::Enc) {
    let enc = [spec::Enc::Double, spec::Enc::Float, spec::Enc::CompatDouble, spec::Enc::CompatFloat][c.enc as usize % 4];
    let mut means: Vec<f32> = vec![c.start];
    for s in &c.steps {
        let next = *means.last().unwrap() + *s;
        means.push(if next.is_finite() { next } else { *means.last().unwrap() });
    }
    let mut cents: Vec<(f64, u64)> = means.iter().zip(c.weights.iter()).map(|(m, w)| (*m as f64, (*w).max(1) as u64)).collect();
    let n = cents.len();
    let with_buffer = matches!(enc, spec::Enc::Double | spec::Enc::Float) && !c.buffered.is_empty();
    if with_buffer {
        // A digest serialized together with its buffer (C++ option): its centroid list obeys the
        // in-process invariant that the end centroids are single points.
        cents[0].1 = 1;
        cents[n - 1].1 = 1;
    }
    let first = cents[0];
    let last = cents[n - 1];
    let (mut g1, mut g2) = (c.min_gap, c.max_gap);
    if n == 1 && first.1 > 1 && (g1 == 0.0) != (g2 == 0.0) {
        // one multi-value centroid: either all values are equal or it spreads to both sides
        g1 = g1.max(g2);
        g2 = g1;
    }
    // a weight-1 end centroid is a single point, so it is the extreme itself
    let mut min = if first.1 == 1 { first.0 } else { (first.0 as f32 - g1) as f64 };
    let mut max = if last.1 == 1 { last.0 } else { (last.0 as f32 + g2) as f64 };
    if !min.is_finite() {
        min = first.0;
    }
    if !max.is_finite() {
        max = last.0;
    }
    // buffered values may lie anywhere, also beyond the centroids (then they are the extremes)
    let mut buffered = vec![];
    if with_buffer {
        let lo = first.0 as f32 - c.min_gap;
        let hi = last.0 as f32 + c.max_gap;
        for b in &c.buffered {
            let t = *b as f32 / 65535.0;
            let v = (lo + t * (hi - lo)) as f64;
            if v.is_finite() {
                buffered.push(v);
                min = min.min(v);
                max = max.max(v);
            }
        }
    }
    if c.range_sel >= 6 {
        let m = cents.iter().map(|x| x.0.abs()).chain(buffered.iter().map(|v| v.abs())).chain([min.abs(), max.abs()]).fold(0.0f64, f64::max);
        if m > 0.0 && m.is_finite() {
            let top = if matches!(enc, spec::Enc::Float | spec::Enc::CompatFloat) { 127 } else { 1023 };
            let e = top - (m.log2().floor() as i32) - if c.range_sel == 7 { 2 } else { 1 };
            // a power of two: exact in both value types, order preserved
            let f = 2f64.powi(e.clamp(0, 1023));
            let f2 = 2f64.powi((e - e.clamp(0, 1023)).max(0));
            for x in cents.iter_mut() {
                x.0 = x.0 * f * f2;
            }
            for v in buffered.iter_mut() {
                *v = *v * f * f2;
            }
            min = min * f * f2;
            max = max * f * f2;
        }
    }
    (spec::TdImage { k: c.k, empty: false, single: false, reverse_merge: c.reverse_merge, min, max, centroids: cents, buffered }, enc)
}

pub fn run_image(c: &ImageCase, info: &mut CaseInfo) -> Result<(), Fail> {
    let (im, enc) = build_image(c);
    let bytes = spec::encode(&im, enc);
    let mut td = TDigestMut::deserialize(&bytes, enc == spec::Enc::Float).map_err(|e| Fail {
        clause: "C10.valid_image_rejected".into(),
        detail: format!("{enc:?} image with {} centroids rejected: {e}", im.centroids.len()),
    })?;
    let total: u64 = im.centroids.iter().map(|c| c.1).sum::<u64>() + im.buffered.len() as u64;
    let known = Known { total, min: im.min, max: im.max };
    ensure!(td.k() == c.k, "C10.image.k", "k {} expected {}", td.k(), c.k);
    let st = battery(&mut td, &known, 150, c.qseed, &format!("{enc:?} image, {} centroids, first weight {}, last weight {}", im.centroids.len(), im.centroids[0].1, im.centroids.last().unwrap().1))?;
    info.label(format!("enc={enc:?}"));
    if st.heavy_tail {
        info.label("heavy_tail_centroid");
    }
    info.nontrivial = st.centroids >= 3 && st.heavy_tail;
    // The digest read from a foreign image is a live digest: values inside [min, max] and a merge with a second
    // copy leave the extremes where they are (a heavy end centroid's mean is not an extreme).
    let what = format!("{enc:?} image, {} centroids, first weight {}, last weight {}", im.centroids.len(), im.centroids[0].1, im.centroids.last().unwrap().1);
    let mut more = 0u64;
    let mut sm = SplitMix(c.qseed ^ 0x1f);
    let inner = [im.centroids[0].0, im.centroids.last().unwrap().0, im.min / 2.0 + im.max / 2.0];
    for i in 0..(1 + sm.below(5)) {
        let v = inner[(i % 3) as usize];
        if v.is_finite() && v >= im.min && v <= im.max {
            td.update(v);
            more += 1;
        }
    }
    let known2 = Known { total: total + more, min: im.min, max: im.max };
    battery(&mut td, &known2, 60, c.qseed ^ 1, &format!("{what}, then {more} updates inside [min, max]"))?;
    {
        // merged INTO another digest, the image's own extremes count (not only its centroid means)
        let mut x = TDigestMut::new(c.k);
        let mid = im.min / 2.0 + im.max / 2.0;
        x.update(mid);
        let fresh = TDigestMut::deserialize(&bytes, enc == spec::Enc::Float).map_err(|e| Fail { clause: "C10.valid_image_rejected".into(), detail: format!("{e}") })?;
        x.merge(&fresh);
        let known4 = Known { total: total + 1, min: im.min, max: im.max };
        battery(&mut x, &known4, 40, c.qseed ^ 3, &format!("{what}, merged into a digest holding one value inside [min, max]"))?;
    }
    if total + more < (1 << 40) {
        let mut other = TDigestMut::deserialize(&bytes, enc == spec::Enc::Float).map_err(|e| Fail { clause: "C10.valid_image_rejected".into(), detail: format!("{e}") })?;
        other.merge(&td);
        let known3 = Known { total: 2 * total + more, min: im.min, max: im.max };
        battery(&mut other, &known3, 60, c.qseed ^ 2, &format!("{what}, merged with an updated copy of itself"))?;
    }
    Ok(())
}

pub fn def() -> PropDef {
    PropDef {
        id: "C10",
        assumptions: vec![
            "exact count / min / max of the offered finite values kept by the harness",
            "rank(quantile(q)) resolution = (weight of the five centroids around the answer + further centroids at that value (up to rounding) + 1) / W, read from the digest's own image through the independent decoder",
            "valid images: sorted means, positive weights, min <= first mean, max >= last mean, a weight-1 end centroid equals the extreme; buffered values inside [min, max]",
        ],
        subs: vec![
            Box::new(PropSub {
                name: "history_queries",
                rule: "k 10..=500; histories of runs (uniform, sorted, reversed, heavy duplicates, clusters, log-uniform; scaled by 10^-300..10^300 and shifted; NaN / +-inf offered and ignored), merges of side digests of other k, freeze/unfreeze, round-trip; after every non-run step and at the end a battery of ~120 grid values of v plus every centroid mean +- 1 ulp, min, max, and ~150 values of q incl. 0, 1, 1/W, 1-1/W: monotonicity, ranges, end points, cdf/pmf vs rank incl. empty split points, rank(quantile(q)) within resolution, total_weight, exact min/max. non-trivial = >= 3 centroids and (merge or round-trip or heavy end centroid)",
                cases_quick: 60_000,
                cases_thorough: 1_000_000,
                max_shrink_iters: 3000,
                limit_factor: 1,
                strategy: || case_strategy(3000),
                check: run_case,
            }),
            Box::new(PropSub {
                name: "foreign_images",
                rule: "spec-encoded valid images (DataSketches double and float, reference-implementation big-endian double and float) with arbitrary sorted centroid lists of 1..41 centroids, weights 1..5000 incl. heavy first / last centroids, equal neighbouring means, min below / equal to the first mean, buffered values; same query battery. non-trivial = >= 3 centroids with a heavy end centroid",
                cases_quick: 300_000,
                cases_thorough: 4_000_000,
                max_shrink_iters: 3000,
                limit_factor: 1,
                strategy: image_case,
                check: run_image,
            }),
        ],
        post: None,
    }
}
