//! C15 - t-digest stays small and accurate: bounded centroids, tail-tight rank error.

use super::c10::{gen_values, k_strategy, Run, Shape};
use super::PropDef;
use crate::kit::runner::{CaseInfo, Fail, PropSub};
use crate::kit::SplitMix;
use crate::spec::tdigest as spec;
use datasketches::tdigest::TDigestMut;
use proptest::prelude::*;
use serde::{Deserialize, Serialize};

#[derive(Debug, Clone, Serialize, Deserialize)]
pub struct Case {
    pub k: u16,
    /// each part is built as its own digest from its runs, then merged into the first
    pub parts: Vec<Vec<Run>>,
    /// true: merge as a balanced tree, false: fold left
    pub tree: bool,
    pub gseed: u64,
    /// Some(k2): the parts (built with `k`, each compressed by its own check) are folded into a fresh, empty
    /// accumulator of k2 - unions of digests of other k must obey the accumulator's own bounds
    #[serde(default)]
    pub acc_k: Option<u16>,
}

/// accuracy multipliers over t(1-t) * Z / (2k), calibrated on the repaired tree (DESIGN C15):
/// streams of one scale never exceeded 3 in 6.5k digests, streams mixing scales / shifts
/// never exceeded 6 in 25k digests.
pub const ACC_FACTOR_HOMOG: f64 = 5.0;
pub const ACC_FACTOR_MIXED: f64 = 12.0;
/// log-uniform data over more than this many decades is the recorded known finding
pub const WIDE_DECADES: u16 = 10;

fn shape_strategy() -> impl Strategy<Value = Shape> {
    prop_oneof![
        5 => Just(Shape::Uniform),
        2 => Just(Shape::Sorted),
        2 => Just(Shape::Reversed),
        3 => (1u8..=12).prop_map(Shape::Dups),
        2 => (1u8..=8).prop_map(Shape::Clustered),
        2 => (1u16..=600).prop_map(Shape::LogUniform),
        1 => Just(Shape::Extreme),
        2 => (2u8..=90).prop_map(Shape::AtomInCloud),
    ]
}

fn run_strategy(max_n: u32) -> impl Strategy<Value = Run> {
    (
        shape_strategy(),
        prop_oneof![2 => 1u32..=300, 3 => 300u32..=max_n],
        any::<u64>(),
        prop_oneof![5 => Just(0i16), 2 => -6i16..=6, 1 => -280i16..=280],
        prop_oneof![3 => Just(0i8), 1 => any::<i8>()],
    )
        .prop_map(|(shape, n, seed, exp10, shift)| Run { shape, n, seed, exp10, shift })
}

pub fn case_strategy(max_n: u32, max_parts: usize) -> impl Strategy<Value = Case> {
    (
        k_strategy(),
        proptest::collection::vec(proptest::collection::vec(run_strategy(max_n), 1..3), 1..=max_parts),
        any::<bool>(),
        any::<u64>(),
        prop_oneof![3 => Just(None), 1 => k_strategy().prop_map(Some)],
    )
        .prop_map(|(k, parts, tree, gseed, acc_k)| Case { k, parts, tree, gseed, acc_k })
}

pub struct Acc {
    pub worst_ratio: f64,
    pub centroids: usize,
}

/// structure + accuracy of `td` against the exact sorted data
pub fn check_digest(td: &mut TDigestMut, sorted: &[f64], gseed: u64, wide: bool, acc_factor: f64, ctx: &str) -> Result<Acc, Fail> {
    let k = td.k();
    check_digest_k(td, sorted, gseed, wide, acc_factor, ctx, k)
}

/// `k_accuracy`: the k the rank-error budget is computed from (the smallest k among the digests that contributed);
/// the structural bounds always use the digest's own k.
pub fn check_digest_k(td: &mut TDigestMut, sorted: &[f64], gseed: u64, wide: bool, acc_factor: f64, ctx: &str, k_accuracy: u16) -> Result<Acc, Fail> {
    let n = sorted.len();
    let k = td.k() as usize;
    ensure!(td.total_weight() == n as u64, "C15.total_weight", "{ctx}: total_weight {} but {} values", td.total_weight(), n);
    if n == 0 {
        return Ok(Acc { worst_ratio: 0.0, centroids: 0 });
    }
    let bytes = td.serialize();
    ensure!(
        bytes.len() <= 32 + 16 * (2 * k + 30),
        "C15.image_size",
        "{ctx}: image of {} bytes exceeds 32 + 16 * (2k + 30) = {}",
        bytes.len(),
        32 + 16 * (2 * k + 30)
    );
    let img = spec::decode(&bytes, false).map_err(|e| Fail { clause: "C15.image_layout".into(), detail: format!("{ctx}: {e}") })?;
    let cents = &img.centroids;
    ensure!(cents.len() <= 2 * k + 30, "C15.centroid_count", "{ctx}: {} centroids > 2k + 30 = {}", cents.len(), 2 * k + 30);
    ensure!(img.buffered.is_empty(), "C15.buffer_in_image", "{ctx}: image carries buffered values");
    let (min, max) = (sorted[0], sorted[n - 1]);
    ensure!(img.min == min && img.max == max, "C15.min_max", "{ctx}: image min/max ({}, {}) exact ({min}, {max})", img.min, img.max);
    let mut wsum = 0u64;
    let mut prev = f64::NEG_INFINITY;
    for (i, &(m, w)) in cents.iter().enumerate() {
        ensure!(w > 0, "C15.zero_weight", "{ctx}: centroid {i} has weight 0");
        ensure!(m.is_finite() && m >= prev, "C15.means_not_sorted", "{ctx}: centroid {i} mean {m} after {prev}");
        // a mean is a convex combination of data points (rounding tolerance)
        let tol = min.abs().max(max.abs()) * 1e-12;
        ensure!(m >= min - tol && m <= max + tol, "C15.mean_outside_range", "{ctx}: centroid {i} mean {m} outside [{min}, {max}]");
        prev = m;
        wsum += w;
    }
    ensure!(wsum == n as u64, "C15.weights_sum", "{ctx}: centroid weights sum to {wsum}, total_weight {n}");

    // accuracy against the exact empirical distribution (mid-rank convention)
    let nf = n as f64;
    let k = (k_accuracy as usize).min(k);
    let z = 4.0 * (nf / (2.0 * k as f64)).max(1.0).ln() + 24.0;
    let mut probes: Vec<f64> = vec![min, max];
    let grid = 2000usize;
    for i in 0..=grid {
        probes.push(sorted[((i as u128 * (n - 1) as u128) / grid as u128) as usize]);
    }
    for i in 0..n.min(24) {
        probes.push(sorted[i]);
        probes.push(sorted[n - 1 - i]);
    }
    // a few values between data points
    let mut sm = SplitMix(gseed);
    for _ in 0..200 {
        let i = sm.below(n as u64 - 0) as usize;
        let j = (i + 1).min(n - 1);
        let mid = sorted[i] / 2.0 + sorted[j] / 2.0;
        if mid.is_finite() {
            probes.push(mid);
        }
    }
    // the population statistics (calibrated on the probe set above) do not see the probes added from here on
    let population_probes = probes.len();
    // extra probes: the data points on either side of every heavy atom (>= 2 % of the stream), and half-way to them
    {
        let mut i = 0usize;
        while i < n {
            let j = sorted.partition_point(|x| *x <= sorted[i]);
            if (j - i) * 50 >= n && j - i >= 2 {
                if i > 0 {
                    probes.push(sorted[i - 1]);
                    probes.push(sorted[i - 1] / 2.0 + sorted[i] / 2.0);
                }
                if j < n {
                    probes.push(sorted[j]);
                    probes.push(sorted[j] / 2.0 + sorted[i] / 2.0);
                }
            }
            i = j;
        }
    }
    let mut worst = 0.0f64;
    for (pi, &v) in probes.iter().enumerate() {
        let lt = sorted.partition_point(|x| *x < v);
        let le = sorted.partition_point(|x| *x <= v);
        let t = (lt + le) as f64 / (2.0 * nf);
        let atom = (le - lt) as f64 / nf;
        let r = td.rank(v).ok_or_else(|| Fail { clause: "C15.rank_none".into(), detail: format!("{ctx}: rank({v}) None") })?;
        let err = (r - t).abs();
        if v == min || v == max {
            // exact to one sample at the extremes (atoms of equal extreme values allowed for)
            ensure!(
                err <= 1.0 / nf + atom / 2.0 + 1e-12,
                "C15.extreme_rank",
                "{ctx}: rank({v}) = {r} at an extreme, exact mid-rank {t} (n = {n}, atom {atom})"
            );
            continue;
        }
        let unit = t * (1.0 - t) * z / (2.0 * k as f64);
        let allowed = acc_factor * unit + 1.5 / nf + atom;
        let ratio = (err - 1.5 / nf - atom).max(0.0) / unit.max(1e-300);
        if pi < population_probes {
            worst = worst.max(ratio);
        }
        if err > allowed && std::env::var("VERIF_C15_CALIBRATE").is_err() {
            let clause = if wide { "C15.rank_error[shape=loguniform-wide]" } else { "C15.rank_error" };
            fail!(
                clause,
                "{ctx}: rank({v}) = {r} but exact mid-rank is {t}: error {err} > {acc_factor} * t(1-t) * Z / 2k + 1.5/n + atom = {allowed} (k {k}, n {n}, {} centroids)",
                cents.len()
            );
        }
    }
    Ok(Acc { worst_ratio: worst, centroids: cents.len() })
}

fn is_wide(r: &Run) -> bool {
    matches!(r.shape, Shape::LogUniform(d) if d > WIDE_DECADES)
}

pub fn run_case(c: &Case, info: &mut CaseInfo) -> Result<(), Fail> {
    let wide = c.parts.iter().flatten().any(is_wide);
    let all_runs: Vec<&Run> = c.parts.iter().flatten().collect();
    let homog = all_runs.iter().all(|r| r.exp10 == all_runs[0].exp10 && r.shift == all_runs[0].shift)
        && !all_runs.iter().any(|r| matches!(r.shape, Shape::LogUniform(_) | Shape::Extreme | Shape::AtomInCloud(_)));
    let homog = homog && c.acc_k.is_none();
    let acc = if homog { ACC_FACTOR_HOMOG } else { ACC_FACTOR_MIXED };
    let mut digests: Vec<(TDigestMut, Vec<f64>)> = vec![];
    let mut worst = 0.0f64;
    for (pi, runs) in c.parts.iter().enumerate() {
        let mut td = TDigestMut::new(c.k);
        let mut data = vec![];
        for (ri, r) in runs.iter().enumerate() {
            for v in gen_values(r) {
                td.update(v);
                data.push(v);
            }
            // intermediate check after each run of the first part (streamed digest)
            if pi == 0 {
                let mut s = data.clone();
                s.sort_by(|a, b| a.partial_cmp(b).unwrap());
                let a = check_digest(&mut td, &s, c.gseed, wide, acc, &format!("streamed digest after run #{ri} (k {})", c.k))?;
                worst = worst.max(a.worst_ratio);
            }
        }
        digests.push((td, data));
    }
    if let Some(k2) = c.acc_k {
        // every part has been compressed (queried / serialized) by now; the accumulator starts empty
        for (td, data) in digests.iter_mut() {
            if !data.is_empty() {
                let mut s = data.clone();
                s.sort_by(|a, b| a.partial_cmp(b).unwrap());
                check_digest(td, &s, c.gseed, wide, acc, &format!("part before the union (k {})", c.k))?;
            }
        }
        digests.insert(0, (TDigestMut::new(k2), vec![]));
        info.label(if k2 < c.k { "acc_k<part_k" } else { "acc_k>=part_k" });
    }
    let n_parts = digests.len();
    // merge
    let (mut td, mut data) = if c.tree && n_parts > 2 && c.acc_k.is_none() {
        let mut level = digests;
        while level.len() > 1 {
            let mut next = vec![];
            let mut it = level.into_iter();
            while let Some((mut a, mut da)) = it.next() {
                if let Some((b, db)) = it.next() {
                    a.merge(&b);
                    da.extend(db);
                }
                next.push((a, da));
            }
            level = next;
        }
        level.pop().unwrap()
    } else {
        let mut it = digests.into_iter();
        let (mut a, mut da) = it.next().unwrap();
        for (b, db) in it {
            a.merge(&b);
            da.extend(db);
            let mut s = da.clone();
            s.sort_by(|x, y| x.partial_cmp(y).unwrap());
            let ak = a.k();
            let acc_r = check_digest_k(&mut a, &s, c.gseed, wide, if c.acc_k.is_some() { ACC_FACTOR_MIXED } else { acc }, &format!("after merging a part (part k {}, accumulator k {})", c.k, ak), c.k)?;
            worst = worst.max(acc_r.worst_ratio);
        }
        (a, da)
    };
    data.sort_by(|a, b| a.partial_cmp(b).unwrap());
    let acc_f = check_digest_k(&mut td, &data, c.gseed, wide, if c.acc_k.is_some() { ACC_FACTOR_MIXED } else { acc }, &format!("final digest of {n_parts} parts (k {})", c.k), c.k)?;
    worst = worst.max(acc_f.worst_ratio);
    let n = data.len();
    info.nontrivial = n > c.k as usize && n > 4 * (2 * c.k as usize + 30);
    if n_parts > 1 {
        info.label("merged");
    }
    if wide {
        info.label("shape=loguniform-wide");
    }
    info.label(match n {
        0..=999 => "n<1e3",
        1000..=9999 => "n<1e4",
        10000..=99999 => "n<1e5",
        _ => "n>=1e5",
    });
    if std::env::var("VERIF_C15_CALIBRATE").is_ok() {
        let d = c.parts.iter().flatten().filter_map(|r| if let Shape::LogUniform(d) = r.shape { Some(d) } else { None }).max().unwrap_or(0);
        let b = match d { 0 => "0", 1 => "1", 2 => "2", 3 => "3", 4..=5 => "4-5", 6..=10 => "6-10", 11..=30 => "11-30", 31..=100 => "31-100", _ => ">100" };
        let runs: Vec<&Run> = c.parts.iter().flatten().collect();
        let homog = runs.iter().all(|r| r.exp10 == runs[0].exp10 && r.shift == runs[0].shift) && !runs.iter().any(|r| matches!(r.shape, Shape::Extreme | Shape::AtomInCloud(_)));
        info.label(format!("cal:{}:decades={b}:ratio<={}", if homog { "homog" } else { "mixed" }, if worst <= 1.0 { "1" } else if worst <= 2.0 { "2" } else if worst <= 3.0 { "3" } else if worst <= 4.0 { "4" } else if worst <= 6.0 { "6" } else if worst <= 8.0 { "8" } else if worst <= 12.0 { "12" } else if worst <= 16.0 { "16" } else { "inf" }));
    }
    if homog && n > 4 * (2 * c.k as usize + 30) {
        info.label("homog");
        if worst > 2.0 {
            info.label("homog:ratio>2");
        }
        if worst > 1.0 {
            info.label("homog:ratio>1");
        }
        info.sum("homog_worst_ratio", worst);
    }
    if !wide {
        info.label(format!(
            "acc_ratio<={}",
            if worst <= 0.5 { "0.5" } else if worst <= 1.0 { "1" } else if worst <= 2.0 { "2" } else if worst <= 3.0 { "3" } else { "4" }
        ));
    }
    Ok(())
}

pub fn def() -> PropDef {
    PropDef {
        id: "C15",
        assumptions: vec![
            "exact sorted data kept by the harness; truth = mid-rank (count(<v) + count(<=v)) / 2n",
            "rank error budget: F * t(1-t) * Z / (2k) + 1.5/n + atom(v) with F = 5 for streams of one scale and 12 for streams mixing scales / shifts, Z = 4 ln(max(n/2k, 1)) + 24 (the cluster-size limit of the K_2 scale function); at min and max: 1/n + atom/2",
            "log-uniform data over more than WIDE_DECADES decades is generated as its own labelled class and matched against the recorded known finding",
        ],
        subs: vec![
            Box::new(PropSub {
                name: "size_and_accuracy",
                rule: "k 10..=500; 1..6 part digests of 1..2 runs each (uniform, sorted, reversed, duplicates, clusters, log-uniform, range-end values, a heavy atom inside a cloud of distinct values; up to 20k values per run in quick), merged by folding or as a balanced tree; structure (centroid count <= 2k+30, image size, positive weights summing to total_weight, sorted means inside [min, max]) and rank accuracy on ~2300 probes (2000 order statistics, the 24 smallest and largest values, 200 midpoints, the data points on either side of every atom carrying >= 2 % of the stream and half-way to them) after every run of the streamed part, after every fold merge and at the end. non-trivial = more than 4*(2k+30) values (at least one compression)",
                cases_quick: 20_000,
                cases_thorough: 200_000,
                max_shrink_iters: 400,
                limit_factor: 1,
                strategy: || case_strategy(20_000, 6),
                check: run_case,
            }),
            Box::new(PropSub {
                name: "long_streams_and_merge_trees",
                rule: "same with up to 16 parts and runs of up to 120k values (thorough: 1e6 via VERIF_TIER)",
                cases_quick: 400,
                cases_thorough: 3_000,
                max_shrink_iters: 60,
                limit_factor: 1,
                strategy: || case_strategy(120_000, 16),
                check: run_case,
            }),
        ],
        post: Some(population),
    }
}

/// Population clause: among single-scale streams long enough to compress, the worst probe of a
/// digest rarely needs more than 2 units of t(1-t) Z / 2k (0.12 % of 6.5k digests at calibration);
/// a digest whose clusters are systematically too large shifts that fraction by an order of magnitude.
fn population(_ctx: &crate::kit::runner::Ctx, rep: &mut crate::kit::report::Report) {
    let mut homog = 0u64;
    let mut over = 0u64;
    for s in &rep.subs {
        homog += s.classes.get("homog").copied().unwrap_or(0);
        over += s.classes.get("homog:ratio>2").copied().unwrap_or(0);
    }
    if homog < 200 {
        return;
    }
    let p0 = 0.02;
    let limit = p0 + crate::kit::stats::binom_margin(p0, homog);
    let f = over as f64 / homog as f64;
    // mean of the per-digest worst ratio: 0.28-0.30 over 5 seeds x 1500 digests at calibration
    // (per-digest sd about 0.4); the limit leaves 6 standard errors on top of 0.32
    let sum_ratio: f64 = rep.subs.iter().map(|s| s.extra.get("sum_homog_worst_ratio").and_then(|v| v.as_f64()).unwrap_or(0.0)).sum();
    let mean_ratio = sum_ratio / homog as f64;
    let mean_limit = 0.32 + 6.0 * 0.4 / (homog as f64).sqrt();
    if let Some(s) = rep.subs.first_mut() {
        s.extra.insert("population_homog_digests".into(), serde_json::json!(homog));
        s.extra.insert("population_fraction_ratio_gt_2".into(), serde_json::json!(f));
        s.extra.insert("population_limit".into(), serde_json::json!(limit));
        s.extra.insert("population_mean_worst_ratio".into(), serde_json::json!(mean_ratio));
        s.extra.insert("population_mean_limit".into(), serde_json::json!(mean_limit));
        if mean_ratio > mean_limit {
            s.violations.push(crate::kit::report::Violation {
                sub: s.name.clone(),
                clause: "C15.accuracy_population_mean".into(),
                detail: format!("mean worst-probe ratio over {homog} single-scale digests is {mean_ratio:.3} > limit {mean_limit:.3} (calibrated 0.28-0.30)"),
                case: serde_json::Value::Null,
            });
        }
        if f > limit {
            s.violations.push(crate::kit::report::Violation {
                sub: s.name.clone(),
                clause: "C15.accuracy_population".into(),
                detail: format!("{over} of {homog} single-scale digests need more than 2 units of t(1-t) Z / 2k at their worst probe ({f:.4} > limit {limit:.4})"),
                case: serde_json::Value::Null,
            });
        }
    }
}
