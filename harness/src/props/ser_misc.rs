//! CPC, Frequent Items, t-digest, Count-Min and Bloom parts of C11 / C12.

use super::{c05, c07, c08, c09, c10};
use crate::kit::refhash;
use crate::kit::runner::{CaseInfo, Fail};
use crate::kit::SplitMix;
use crate::model::cpc::{correct_offset, flavor, CpcModel};
use crate::spec::{cpc as cspec, fi as fspec, tdigest as tspec};
use datasketches::common::NumStdDev;
use datasketches::countmin::CountMinSketch;
use datasketches::cpc::{CpcSketch, CpcUnion, CpcWrapper};
use datasketches::frequencies::{ErrorType, FrequentItemsSketch};
use datasketches::tdigest::TDigestMut;
use proptest::prelude::*;
use serde::{Deserialize, Serialize};
use std::collections::{BTreeMap, BTreeSet};

// ------------------------------------------------------------------------------------------ CPC

#[derive(Debug, Clone, Serialize, Deserialize)]
pub struct CpcCase {
    pub lg_k: u8,
    pub seed: u64,
    pub ops: Vec<c05::Op>,
    pub more: Vec<c05::Op>,
    pub via_union: bool,
}

pub fn cpc_case() -> impl Strategy<Value = CpcCase> {
    (
        4u8..=12,
        c05::seed_strategy(),
        proptest::collection::vec(c05::op_strategy(), 0..6),
        proptest::collection::vec(c05::op_strategy(), 0..3),
        proptest::bool::weighted(0.2),
    )
        .prop_map(|(lg_k, seed, ops, more, via_union)| CpcCase { lg_k, seed, ops, more, via_union })
}

fn cpc_build(c: &CpcCase) -> (CpcSketch, CpcModel) {
    let mut s = CpcSketch::with_seed(c.lg_k, c.seed);
    let mut m = CpcModel::new(c.lg_k);
    for op in &c.ops {
        let mut cs = vec![];
        c05::expand(op, c.lg_k, c.seed, &mut cs);
        for rc in cs {
            if m.fits_capacity(rc) {
                m.offer(rc);
                s.verif_row_col_update(rc);
            }
        }
    }
    if c.via_union {
        let mut u = CpcUnion::with_seed(c.lg_k, c.seed);
        u.update(&s);
        s = u.to_sketch();
    }
    (s, m)
}

fn cpc_reads(s: &CpcSketch) -> [u64; 7] {
    [
        s.estimate().to_bits(),
        s.lower_bound(NumStdDev::One).to_bits(),
        s.lower_bound(NumStdDev::Two).to_bits(),
        s.lower_bound(NumStdDev::Three).to_bits(),
        s.upper_bound(NumStdDev::One).to_bits(),
        s.upper_bound(NumStdDev::Two).to_bits(),
        s.upper_bound(NumStdDev::Three).to_bits(),
    ]
}

pub fn cpc_roundtrip(c: &CpcCase, info: &mut CaseInfo) -> Result<(), Fail> {
    let (mut s, mut m) = cpc_build(c);
    let fl = flavor(c.lg_k, m.c);
    let ctx = format!("lg_k {} C {} flavor {fl} offset {} merged {}", c.lg_k, m.c, correct_offset(c.lg_k, m.c), c.via_union);
    let bytes = s.serialize();
    let mut d = CpcSketch::deserialize_with_seed(&bytes, c.seed).map_err(|e| Fail { clause: "C11.cpc.rejected".into(), detail: format!("{ctx}: own image rejected: {e}") })?;
    ensure!(d.lg_k() == s.lg_k() && d.num_coupons() == s.num_coupons() && d.is_empty() == s.is_empty(), "C11.cpc.accessors", "{ctx}: lg_k / num_coupons / emptiness changed");
    ensure!(d.validate(), "C11.cpc.validate", "{ctx}: deserialized sketch fails validate()");
    ensure!(d.verif_bit_matrix() == s.verif_bit_matrix(), "C11.cpc.matrix", "{ctx}: bit matrix changed by the round trip");
    let (a, b) = (s.verif_state(), d.verif_state());
    ensure!(
        a.window_offset == b.window_offset && a.first_interesting_column == b.first_interesting_column && a.flavor == b.flavor && a.merge_flag == b.merge_flag && a.has_window == b.has_window && a.table_entries == b.table_entries,
        "C11.cpc.state",
        "{ctx}: state changed: {a:?} -> {b:?}"
    );
    if !a.merge_flag {
        ensure!(a.kxp.to_bits() == b.kxp.to_bits() && a.hip_est_accum.to_bits() == b.hip_est_accum.to_bits(), "C11.cpc.hip_state", "{ctx}: kxp / hip ({}, {}) -> ({}, {})", a.kxp, a.hip_est_accum, b.kxp, b.hip_est_accum);
    }
    ensure!(cpc_reads(&s) == cpc_reads(&d), "C11.cpc.estimate", "{ctx}: estimate / bounds differ: {} vs {}", s.estimate(), d.estimate());
    ensure!(d.serialize() == bytes, "C11.cpc.reserialize", "{ctx}: re-serialized image differs");
    let w = CpcWrapper::new(&bytes).map_err(|e| Fail { clause: "C11.cpc.wrapper_rejected".into(), detail: format!("{ctx}: {e}") })?;
    ensure!(
        w.estimate().to_bits() == d.estimate().to_bits() && w.lg_k() == d.lg_k() && w.is_empty() == d.is_empty() && w.lower_bound(NumStdDev::Two).to_bits() == d.lower_bound(NumStdDev::Two).to_bits() && w.upper_bound(NumStdDev::Three).to_bits() == d.upper_bound(NumStdDev::Three).to_bits(),
        "C11.cpc.wrapper",
        "{ctx}: CpcWrapper disagrees with the full deserialization"
    );
    // continue
    for (i, op) in c.more.iter().enumerate() {
        let mut cs = vec![];
        c05::expand(op, c.lg_k, c.seed, &mut cs);
        for rc in cs {
            if m.fits_capacity(rc) {
                m.offer(rc);
                s.verif_row_col_update(rc);
                d.verif_row_col_update(rc);
            }
        }
        ensure!(s.num_coupons() == d.num_coupons() && s.verif_bit_matrix() == d.verif_bit_matrix(), "C11.cpc.diverges_after_update", "{ctx}: matrices differ after follow-up op #{i}");
        ensure!(cpc_reads(&s) == cpc_reads(&d), "C11.cpc.diverges_after_update", "{ctx}: estimates differ after follow-up op #{i}: {} vs {}", s.estimate(), d.estimate());
    }
    let (mut u1, mut u2) = (CpcUnion::with_seed(c.lg_k, c.seed), CpcUnion::with_seed(c.lg_k, c.seed));
    u1.update(&s);
    u2.update(&d);
    ensure!(u1.to_sketch().verif_bit_matrix() == u2.to_sketch().verif_bit_matrix(), "C11.cpc.diverges_in_union", "{ctx}: unions differ");
    info.label(format!("cpc:{}", ["Empty", "Sparse", "Hybrid", "Pinned", "Sliding"][fl as usize]));
    info.nontrivial = fl >= 2;
    Ok(())
}

pub fn cpc_layout(c: &CpcCase, info: &mut CaseInfo) -> Result<(), Fail> {
    let (s, m) = cpc_build(c);
    let fl = flavor(c.lg_k, m.c);
    let ctx = format!("lg_k {} C {} flavor {fl} offset {} merged {}", c.lg_k, m.c, correct_offset(c.lg_k, m.c), c.via_union);
    let bytes = s.serialize();
    let im = cspec::decode(&bytes).map_err(|e| Fail { clause: "C12.cpc.undecodable".into(), detail: format!("{ctx}: the independent FM85 decoder cannot read the image: {e}") })?;
    ensure!(im.lg_k == c.lg_k && im.seed_hash == refhash::seed_hash(c.seed), "C12.cpc.header", "{ctx}: lgK {} seed hash {}", im.lg_k, im.seed_hash);
    ensure!(im.num_coupons as u64 == m.c, "C12.cpc.num_coupons", "{ctx}: numCoupons field {}", im.num_coupons);
    if im.matrix != m.rows {
        let i = (0..m.rows.len()).find(|&i| im.matrix[i] != m.rows[i]).unwrap_or(0);
        fail!("C12.cpc.matrix", "{ctx}: decoded row {i} = {:#018x}, the stream implies {:#018x}", im.matrix[i], m.rows[i]);
    }
    let st = s.verif_state();
    ensure!(im.has_hip == !st.merge_flag || m.c == 0, "C12.cpc.hip_flag", "{ctx}: HIP flag {} but merge flag {}", im.has_hip, st.merge_flag);
    for col in 0..im.fi_col.min(64) as usize {
        ensure!(m.col_cnt[col] as u64 == m.k(), "C12.cpc.first_interesting_column", "{ctx}: fiCol {} but column {col} is not full", im.fi_col);
    }
    if im.has_hip && m.c > 0 {
        let want = m.kxp();
        ensure!((im.kxp - want).abs() <= 1e-9 * want, "C12.cpc.kxp", "{ctx}: kxp field {} recomputed {want}", im.kxp);
        ensure!(im.hip == s.estimate(), "C12.cpc.hip", "{ctx}: hipAccum field {} estimate {}", im.hip, s.estimate());
    }
    info.label(format!("cpc:{}", ["Empty", "Sparse", "Hybrid", "Pinned", "Sliding"][fl as usize]));
    info.label(format!("cpc:phase={}", cspec::pseudo_phase(c.lg_k, m.c)));
    info.nontrivial = fl >= 2;
    Ok(())
}

/// Every coupon count: a natural (exact arrival-time) stream is fed one coupon at a time and the image is checked
/// after EVERY novel coupon, so that a threshold that is off by one count (flavor, window offset, pseudo-phase /
/// Huffman table, sparse-to-hybrid promotion) cannot fall between two sampled states.
#[derive(Debug, Clone, Serialize, Deserialize)]
pub struct CpcSweepCase {
    pub lg_k: u8,
    pub seed: u64,
    pub stream_seed: u64,
    /// sweep until C reaches this many eighths of k
    pub upto_k8: u8,
    pub via_union: bool,
}

pub fn cpc_sweep_case() -> impl Strategy<Value = CpcSweepCase> {
    (4u8..=12, c05::seed_strategy(), any::<u64>(), prop_oneof![3 => 30u8..=60, 1 => 60u8..=250], proptest::bool::weighted(0.15))
        .prop_map(|(lg_k, seed, stream_seed, upto_k8, via_union)| CpcSweepCase { lg_k, seed, stream_seed, upto_k8, via_union })
}

pub fn cpc_sweep(c: &CpcSweepCase, info: &mut CaseInfo, layout: bool) -> Result<(), Fail> {
    let k = 1u64 << c.lg_k;
    let target = (k * c.upto_k8 as u64 / 8).max(8);
    // enough simulated cardinality to collect `target` coupons: C ~ k (log2(n / k) + 1.4) for n >> k
    let n = k as f64 * ((target as f64 / k as f64) + 2.0).exp2();
    let coupons = crate::model::cpc::simulate(c.lg_k, n, c.stream_seed, None);
    let mut s = CpcSketch::with_seed(c.lg_k, c.seed);
    let mut m = CpcModel::new(c.lg_k);
    let mut checked = 0u64;
    for rc in coupons {
        let rc = if rc == u32::MAX { rc ^ (1 << 6) } else { rc };
        if !m.fits_capacity(rc) || !m.offer(rc) {
            continue;
        }
        s.verif_row_col_update(rc);
        let fl = flavor(c.lg_k, m.c);
        let ctx = format!("lg_k {} C {} flavor {fl} offset {} (sweep, merged {})", c.lg_k, m.c, correct_offset(c.lg_k, m.c), c.via_union);
        let img_sketch;
        let sk: &CpcSketch = if c.via_union {
            let mut u = CpcUnion::with_seed(c.lg_k, c.seed);
            u.update(&s);
            img_sketch = u.to_sketch();
            &img_sketch
        } else {
            &s
        };
        let bytes = sk.serialize();
        if layout {
            let im = cspec::decode(&bytes).map_err(|e| Fail { clause: "C12.cpc.undecodable".into(), detail: format!("{ctx}: the independent FM85 decoder cannot read the image: {e}") })?;
            ensure!(im.lg_k == c.lg_k && im.num_coupons as u64 == m.c, "C12.cpc.num_coupons", "{ctx}: lgK {} numCoupons {}", im.lg_k, im.num_coupons);
            if im.matrix != m.rows {
                let i = (0..m.rows.len()).find(|&i| im.matrix[i] != m.rows[i]).unwrap_or(0);
                fail!("C12.cpc.matrix", "{ctx}: decoded row {i} = {:#018x}, the stream implies {:#018x}", im.matrix[i], m.rows[i]);
            }
        } else {
            let d = CpcSketch::deserialize_with_seed(&bytes, c.seed).map_err(|e| Fail { clause: "C11.cpc.rejected".into(), detail: format!("{ctx}: own image rejected: {e}") })?;
            ensure!(d.num_coupons() as u64 == m.c && d.verif_bit_matrix() == m.rows, "C11.cpc.matrix", "{ctx}: bit matrix changed by the round trip");
            ensure!(d.estimate().to_bits() == sk.estimate().to_bits(), "C11.cpc.estimate", "{ctx}: estimate {} -> {}", sk.estimate(), d.estimate());
            let (a, b) = (sk.verif_state(), d.verif_state());
            ensure!(a.window_offset == b.window_offset && a.flavor == b.flavor && a.first_interesting_column == b.first_interesting_column && a.table_entries == b.table_entries, "C11.cpc.state", "{ctx}: state changed: {a:?} -> {b:?}");
            let w = CpcWrapper::new(&bytes).map_err(|e| Fail { clause: "C11.cpc.wrapper_rejected".into(), detail: format!("{ctx}: {e}") })?;
            ensure!(w.estimate().to_bits() == d.estimate().to_bits(), "C11.cpc.wrapper", "{ctx}: CpcWrapper estimate {} vs {}", w.estimate(), d.estimate());
        }
        checked += 1;
        if m.c >= target {
            break;
        }
    }
    info.label(format!("lg_k={}", c.lg_k));
    info.sum("coupon_counts_checked", checked as f64);
    info.nontrivial = flavor(c.lg_k, m.c) >= 3;
    Ok(())
}

pub fn cpc_sweep_roundtrip(c: &CpcSweepCase, info: &mut CaseInfo) -> Result<(), Fail> {
    cpc_sweep(c, info, false)
}
pub fn cpc_sweep_layout(c: &CpcSweepCase, info: &mut CaseInfo) -> Result<(), Fail> {
    cpc_sweep(c, info, true)
}

/// Every byte value through every window code table: a natural stream up to a chosen coupon count (which selects
/// the Huffman table), then a batch of rows whose window byte is set to arbitrary 8-bit patterns.
#[derive(Debug, Clone, Serialize, Deserialize)]
pub struct CpcWindowCase {
    pub lg_k: u8,
    pub seed: u64,
    pub stream_seed: u64,
    /// natural coupons first: this many sixteenths of k
    pub c0_k16: u8,
    /// then this many rows get a random window byte OR-ed in
    pub rows: u16,
    pub rseed: u64,
}

pub fn cpc_window_case() -> impl Strategy<Value = CpcWindowCase> {
    (6u8..=11, c05::seed_strategy(), any::<u64>(), 7u8..=120, 1u16..=400, any::<u64>())
        .prop_map(|(lg_k, seed, stream_seed, c0_k16, rows, rseed)| CpcWindowCase { lg_k, seed, stream_seed, c0_k16, rows, rseed })
}

pub fn cpc_window(c: &CpcWindowCase, info: &mut CaseInfo, layout: bool) -> Result<(), Fail> {
    let k = 1u64 << c.lg_k;
    let target = (k * c.c0_k16 as u64 / 16).max(4);
    let n = k as f64 * ((target as f64 / k as f64) + 2.0).exp2();
    let mut s = CpcSketch::with_seed(c.lg_k, c.seed);
    let mut m = CpcModel::new(c.lg_k);
    for rc in crate::model::cpc::simulate(c.lg_k, n, c.stream_seed, None) {
        let rc = if rc == u32::MAX { rc ^ (1 << 6) } else { rc };
        if m.c >= target {
            break;
        }
        if m.fits_capacity(rc) && m.offer(rc) {
            s.verif_row_col_update(rc);
        }
    }
    // the window of the image covers columns [offset, offset + 8): give some rows arbitrary bytes there
    let mut sm = SplitMix(c.rseed);
    let rows = (c.rows as u64).min(k / 8).max(1);
    for _ in 0..rows {
        let row = sm.below(k) as u32;
        let byte = sm.next() as u8;
        for j in 0..8u32 {
            if byte >> j & 1 == 1 {
                let off = correct_offset(c.lg_k, m.c) as u32;
                let rc = (row << 6) | (off + j).min(63);
                if m.fits_capacity(rc) && m.offer(rc) {
                    s.verif_row_col_update(rc);
                }
            }
        }
    }
    let fl = flavor(c.lg_k, m.c);
    let ctx = format!("lg_k {} C {} flavor {fl} offset {} phase {} ({} rows with arbitrary window bytes)", c.lg_k, m.c, correct_offset(c.lg_k, m.c), cspec::pseudo_phase(c.lg_k, m.c), rows);
    let bytes = s.serialize();
    if layout {
        let im = cspec::decode(&bytes).map_err(|e| Fail { clause: "C12.cpc.undecodable".into(), detail: format!("{ctx}: the independent FM85 decoder cannot read the image: {e}") })?;
        ensure!(im.num_coupons as u64 == m.c, "C12.cpc.num_coupons", "{ctx}: numCoupons field {}", im.num_coupons);
        if im.matrix != m.rows {
            let i = (0..m.rows.len()).find(|&i| im.matrix[i] != m.rows[i]).unwrap_or(0);
            fail!("C12.cpc.matrix", "{ctx}: decoded row {i} = {:#018x}, the stream implies {:#018x}", im.matrix[i], m.rows[i]);
        }
    } else {
        let d = CpcSketch::deserialize_with_seed(&bytes, c.seed).map_err(|e| Fail { clause: "C11.cpc.rejected".into(), detail: format!("{ctx}: own image rejected: {e}") })?;
        ensure!(d.num_coupons() as u64 == m.c && d.verif_bit_matrix() == m.rows, "C11.cpc.matrix", "{ctx}: bit matrix changed by the round trip");
    }
    info.label(format!("phase={}", cspec::pseudo_phase(c.lg_k, m.c)));
    info.nontrivial = fl >= 2;
    Ok(())
}

pub fn cpc_window_roundtrip(c: &CpcWindowCase, info: &mut CaseInfo) -> Result<(), Fail> {
    cpc_window(c, info, false)
}
pub fn cpc_window_layout(c: &CpcWindowCase, info: &mut CaseInfo) -> Result<(), Fail> {
    cpc_window(c, info, true)
}

// ------------------------------------------------------------------------------ Frequent Items

#[derive(Debug, Clone, Serialize, Deserialize)]
pub struct FiCase {
    pub kind: u8,
    pub lg: u8,
    pub domain_q: u8,
    pub runs: Vec<(c07::Shape, u16, u64, u64)>,
    pub more: Vec<(u16, u64)>,
}

/// String items: ASCII, multi-byte UTF-8 (byte length != char count) and the empty string.
pub fn fi_string(id: u64) -> String {
    if id == 5 {
        String::new()
    } else if id % 3 == 0 {
        format!("\u{43a}\u{43b}\u{44e}\u{447}-{id}-\u{e9}\u{1f600}")
    } else {
        format!("item-{id}")
    }
}

pub fn fi_case() -> impl Strategy<Value = FiCase> {
    (
        0u8..3,
        prop_oneof![1 => 0u8..=2, 10 => 3u8..=9],
        1u8..=12,
        proptest::collection::vec(
            (prop_oneof![Just(c07::Shape::Uniform), Just(c07::Shape::Zipf), Just(c07::Shape::AllDistinct), Just(c07::Shape::Heavy)], 1u16..=1500, c07::weight_strategy(), any::<u64>()),
            0..4,
        ),
        proptest::collection::vec((any::<u16>(), c07::weight_strategy()), 0..20),
    )
        .prop_map(|(kind, lg, domain_q, runs, more)| FiCase { kind, lg, domain_q, runs, more })
}

fn fi_typed<T>(c: &FiCase, info: &mut CaseInfo, conv: &dyn Fn(u64) -> T, strings: bool, layout: bool) -> Result<(), Fail>
where
    T: datasketches::frequencies::FrequentItemValue + std::hash::Hash + Eq + Clone + std::fmt::Debug + Ord,
{
    let domain = (((1u64 << c.lg.max(3)) * c.domain_q as u64) / 4).max(2);
    let mut s: FrequentItemsSketch<T> = FrequentItemsSketch::new(1usize << c.lg);
    let mut total = 0u64;
    for (shape, n, w, seed) in &c.runs {
        // the stream weight must fit u64 (with room for count + offset): a weight that would not is replaced by 1
        let w = if (*w as u128) * (*n as u128) + (total as u128) < (u64::MAX - (1 << 50)) as u128 { *w } else { 1 };
        for id in c07::stream(shape, *n as usize, domain, *seed) {
            s.update_with_count(conv(id), w);
            total += w;
        }
    }
    let purged = s.maximum_error() > 0;
    let ctx = format!("map size {} ({} active, total {total}, offset {})", 1u64 << c.lg, s.num_active_items(), s.maximum_error());
    let bytes = s.serialize();
    if layout {
        let im = fspec::decode(&bytes, strings).map_err(|e| Fail { clause: "C12.fi.undecodable".into(), detail: format!("{ctx}: a Java/C++ reader cannot decode the {}-byte image: {e}", bytes.len()) })?;
        ensure!(im.lg_max == c.lg.max(3) && im.lg_cur == s.lg_cur_map_size(), "C12.fi.header", "{ctx}: lgMax {} lgCur {}", im.lg_max, im.lg_cur);
        // the abstract state: every counter, the exact stream weight, the error offset
        ensure!(im.empty == (total == 0), "C12.fi.empty_flag", "{ctx}: empty flag {} but the stream weight is {total}", im.empty);
        if !im.empty {
            ensure!(im.stream_weight == total, "C12.fi.stream_weight", "{ctx}: streamWeight field {}", im.stream_weight);
            ensure!(im.offset == s.maximum_error(), "C12.fi.offset", "{ctx}: offset field {}", im.offset);
            let got: BTreeMap<String, u64> = match &im.items {
                fspec::Items::Longs(v) => v.iter().zip(&im.counts).map(|(k, c)| (k.to_string(), *c)).collect(),
                fspec::Items::Strings(v) => v.iter().zip(&im.counts).map(|(k, c)| (k.clone(), *c)).collect(),
            };
            let mut want = BTreeMap::new();
            for id in 0..domain {
                let it = conv(id);
                let lb = s.lower_bound(&it);
                if lb > 0 {
                    let key = if strings { fi_string(id) } else { item_key(c.kind, id) };
                    want.insert(key, lb);
                }
            }
            ensure!(got.len() == im.counts.len(), "C12.fi.duplicate_items", "{ctx}: duplicate items in the image");
            ensure!(got == want, "C12.fi.counters", "{ctx}: image holds {} counters, the sketch tracks {}", got.len(), want.len());
        }
        info.label(if im.empty { "fi:empty" } else if purged { "fi:purged" } else { "fi:exact" });
        info.nontrivial = purged;
        return Ok(());
    }
    let mut d = FrequentItemsSketch::<T>::deserialize(&bytes).map_err(|e| Fail { clause: "C11.fi.rejected".into(), detail: format!("{ctx}: own {}-byte image rejected: {e}", bytes.len()) })?;
    let cmp = |s: &FrequentItemsSketch<T>, d: &FrequentItemsSketch<T>, when: &str| -> Result<(), Fail> {
        ensure!(d.total_weight() == s.total_weight(), "C11.fi.total_weight", "{ctx} {when}: total_weight {} -> {}", s.total_weight(), d.total_weight());
        ensure!(d.maximum_error() == s.maximum_error(), "C11.fi.maximum_error", "{ctx} {when}: maximum_error {} -> {}", s.maximum_error(), d.maximum_error());
        ensure!(d.num_active_items() == s.num_active_items() && d.is_empty() == s.is_empty(), "C11.fi.active_items", "{ctx} {when}: active items {} -> {}", s.num_active_items(), d.num_active_items());
        ensure!(d.lg_max_map_size() == s.lg_max_map_size() && d.maximum_map_capacity() == s.maximum_map_capacity(), "C11.fi.config", "{ctx} {when}: configuration changed");
        ensure!(
            d.lg_cur_map_size() == s.lg_cur_map_size() && d.current_map_capacity() == s.current_map_capacity(),
            "C11.fi.current_map",
            "{ctx} {when}: current map size lg {} (capacity {}) -> lg {} (capacity {})",
            s.lg_cur_map_size(),
            s.current_map_capacity(),
            d.lg_cur_map_size(),
            d.current_map_capacity()
        );
        for id in 0..domain {
            let it = conv(id);
            ensure!(
                d.lower_bound(&it) == s.lower_bound(&it) && d.upper_bound(&it) == s.upper_bound(&it) && d.estimate(&it) == s.estimate(&it),
                "C11.fi.item_bounds",
                "{ctx} {when}: item {it:?}: (lb, est, ub) ({}, {}, {}) -> ({}, {}, {})",
                s.lower_bound(&it),
                s.estimate(&it),
                s.upper_bound(&it),
                d.lower_bound(&it),
                d.estimate(&it),
                d.upper_bound(&it)
            );
        }
        for et in [ErrorType::NoFalsePositives, ErrorType::NoFalseNegatives] {
            let ra: BTreeSet<(T, u64, u64, u64)> = s.frequent_items(et).into_iter().map(|r| (r.item().clone(), r.estimate(), r.lower_bound(), r.upper_bound())).collect();
            let rb: BTreeSet<(T, u64, u64, u64)> = d.frequent_items(et).into_iter().map(|r| (r.item().clone(), r.estimate(), r.lower_bound(), r.upper_bound())).collect();
            ensure!(ra == rb, "C11.fi.frequent_items", "{ctx} {when}: frequent_items({et:?}) differ ({} vs {} rows)", ra.len(), rb.len());
        }
        Ok(())
    };
    cmp(&s, &d, "after the round trip")?;
    let again = fspec::decode(&d.serialize(), strings);
    let first = fspec::decode(&bytes, strings);
    if let (Ok(a), Ok(b)) = (first, again) {
        ensure!((a.lg_max, a.lg_cur) == (b.lg_max, b.lg_cur), "C11.fi.reserialize", "{ctx}: re-serialized image has lgMax / lgCur ({}, {}), first image ({}, {})", b.lg_max, b.lg_cur, a.lg_max, a.lg_cur);
        let key = |im: &fspec::FiImage| -> (bool, u64, u64, BTreeSet<(String, u64)>) {
            let items: BTreeSet<(String, u64)> = match &im.items {
                fspec::Items::Longs(v) => v.iter().zip(&im.counts).map(|(k, c)| (k.to_string(), *c)).collect(),
                fspec::Items::Strings(v) => v.iter().zip(&im.counts).map(|(k, c)| (k.clone(), *c)).collect(),
            };
            (im.empty, im.stream_weight, im.offset, items)
        };
        ensure!(key(&a) == key(&b), "C11.fi.reserialize", "{ctx}: re-serialized image encodes a different state");
    }
    // Follow-up behaviour. A purge samples the counters in hash-table slot order, and the copy's
    // table is laid out by re-insertion, so once a further purge happens the two sketches may
    // legitimately choose different medians (both remain valid summaries). Strict equality is
    // therefore demanded only while no further purge has happened; afterwards only what must
    // hold for any valid pair: equal total weight and overlapping [lb, ub] for every item.
    let weak = |s: &FrequentItemsSketch<T>, d: &FrequentItemsSketch<T>, when: &str| -> Result<(), Fail> {
        ensure!(d.total_weight() == s.total_weight(), "C11.fi.total_weight", "{ctx} {when}: total_weight {} vs {}", s.total_weight(), d.total_weight());
        for id in 0..domain {
            let it = conv(id);
            ensure!(
                d.lower_bound(&it) <= s.upper_bound(&it) && s.lower_bound(&it) <= d.upper_bound(&it),
                "C11.fi.intervals_disjoint",
                "{ctx} {when}: item {it:?}: original [{}, {}] and copy [{}, {}] cannot both contain the true count",
                s.lower_bound(&it),
                s.upper_bound(&it),
                d.lower_bound(&it),
                d.upper_bound(&it)
            );
        }
        Ok(())
    };
    let offset0 = s.maximum_error();
    let mut repurged = false;
    for (i, (item, w)) in c.more.iter().enumerate() {
        let id = ((*item as u64) * domain) >> 16;
        // keep the stream weight inside u64 (see above)
        let w = if s.total_weight().checked_add(*w).map(|t| t < u64::MAX - (1 << 50)).unwrap_or(false) { *w } else { 1 };
        let w = &w;
        s.update_with_count(conv(id), *w);
        d.update_with_count(conv(id), *w);
        repurged |= s.maximum_error() != offset0 || d.maximum_error() != offset0;
        if i % 5 == 4 || i + 1 == c.more.len() {
            if repurged {
                weak(&s, &d, &format!("after follow-up update #{i} (purged again)"))?;
            } else {
                cmp(&s, &d, &format!("after follow-up update #{i}"))?;
            }
        }
    }
    let mut a: FrequentItemsSketch<T> = FrequentItemsSketch::new(1usize << (c.lg + 1));
    let mut b: FrequentItemsSketch<T> = FrequentItemsSketch::new(1usize << (c.lg + 1));
    a.update_with_count(conv(1), 3);
    b.update_with_count(conv(1), 3);
    a.merge(&s);
    b.merge(&d);
    if repurged || a.maximum_error() != s.maximum_error() || b.maximum_error() != d.maximum_error() {
        weak(&a, &b, "after merging original and copy into fresh sketches")?;
    } else {
        cmp(&a, &b, "after merging original and copy into fresh sketches")?;
    }
    if repurged {
        info.label("fi:purged_again_after_round_trip");
    }
    info.label(if total == 0 { "fi:empty" } else if purged { "fi:purged" } else { "fi:exact" });
    if total > 0 && s.is_empty() {
        info.label("fi:emptied_by_purge");
    }
    info.nontrivial = purged;
    Ok(())
}

fn item_key(kind: u8, id: u64) -> String {
    match kind % 3 {
        0 => ((id as i64 - 1000) as u64).to_string(),
        _ => id.wrapping_mul(0x9E3779B97F4A7C15).to_string(),
    }
}

pub fn fi_run(c: &FiCase, info: &mut CaseInfo, layout: bool) -> Result<(), Fail> {
    info.label(["fi:i64", "fi:u64", "fi:String"][c.kind as usize % 3]);
    match c.kind % 3 {
        0 => fi_typed::<i64>(c, info, &|id| id as i64 - 1000, false, layout),
        1 => fi_typed::<u64>(c, info, &|id| id.wrapping_mul(0x9E3779B97F4A7C15), false, layout),
        _ => fi_typed::<String>(c, info, &fi_string, true, layout),
    }
}
pub fn fi_roundtrip(c: &FiCase, info: &mut CaseInfo) -> Result<(), Fail> {
    fi_run(c, info, false)
}
pub fn fi_layout(c: &FiCase, info: &mut CaseInfo) -> Result<(), Fail> {
    fi_run(c, info, true)
}

// ------------------------------------------------------------------------------------ t-digest

#[derive(Debug, Clone, Serialize, Deserialize)]
pub struct TdCase {
    pub k: u16,
    pub runs: Vec<c10::Run>,
    pub more: Vec<c10::Run>,
    pub qseed: u64,
}

pub fn td_case() -> impl Strategy<Value = TdCase> {
    let ordinary = (c10::k_strategy(), proptest::collection::vec(c10::run_strategy(3000), 0..4), proptest::collection::vec(c10::run_strategy(400), 0..3), any::<u64>())
        .prop_map(|(k, runs, more, qseed)| TdCase { k, runs, more, qseed });
    // rare and large: k near the top of its u16 range with streams long enough for more than 65535 centroids
    let big = (prop_oneof![Just(32762u16), Just(32763), Just(40000), Just(60000), Just(65534), Just(65535), 501u16..=65535], prop_oneof![1 => 1000u32..=100_000, 1 => 1_000_000u32..=2_200_000], any::<u64>(), proptest::collection::vec(c10::run_strategy(400), 0..2), any::<u64>())
        .prop_map(|(k, n, seed, more, qseed)| TdCase { k, runs: vec![c10::Run { shape: c10::Shape::Uniform, n, seed, exp10: 0, shift: 0 }], more, qseed });
    prop_oneof![600 => ordinary, 1 => big]
}

fn td_queries(t: &mut TDigestMut, min: f64, max: f64, qseed: u64) -> Vec<u64> {
    let mut out = vec![t.total_weight(), t.k() as u64, t.is_empty() as u64];
    out.push(t.min_value().map(|x| x.to_bits()).unwrap_or(1));
    out.push(t.max_value().map(|x| x.to_bits()).unwrap_or(1));
    if t.is_empty() {
        return out;
    }
    let mut sm = SplitMix(qseed);
    for i in 0..=60 {
        let q = i as f64 / 60.0;
        out.push(t.quantile(q).unwrap().to_bits());
        let v = min + (max - min) * q;
        if v.is_finite() {
            out.push(t.rank(v).unwrap().to_bits());
        }
        out.push(t.quantile(sm.unit()).unwrap().to_bits());
    }
    out
}

pub fn td_roundtrip(c: &TdCase, info: &mut CaseInfo) -> Result<(), Fail> {
    let mut t = TDigestMut::new(c.k);
    let (mut min, mut max, mut n) = (f64::INFINITY, f64::NEG_INFINITY, 0u64);
    for r in &c.runs {
        for v in c10::gen_values(r) {
            t.update(v);
            min = min.min(v);
            max = max.max(v);
            n += 1;
        }
    }
    let ctx = format!("k {} n {n}", c.k);
    let bytes = t.serialize();
    let mut d = TDigestMut::deserialize(&bytes, false).map_err(|e| Fail { clause: "C11.tdigest.rejected".into(), detail: format!("{ctx}: own image rejected: {e}") })?;
    ensure!(td_queries(&mut t, min, max, c.qseed) == td_queries(&mut d, min, max, c.qseed), "C11.tdigest.queries", "{ctx}: rank / quantile / accessors differ after the round trip");
    ensure!(d.serialize() == bytes, "C11.tdigest.reserialize", "{ctx}: re-serialized image differs");
    // identical behaviour under further updates and merges (this is where the merge direction flag matters)
    for (i, r) in c.more.iter().enumerate() {
        for v in c10::gen_values(r) {
            t.update(v);
            d.update(v);
            min = min.min(v);
            max = max.max(v);
        }
        ensure!(t.serialize() == d.serialize(), "C11.tdigest.diverges_after_update", "{ctx}: images differ after follow-up run #{i}");
        ensure!(td_queries(&mut t, min, max, c.qseed) == td_queries(&mut d, min, max, c.qseed), "C11.tdigest.diverges_after_update", "{ctx}: answers differ after follow-up run #{i}");
    }
    let mut o = TDigestMut::new(c.k);
    for i in 0..50 {
        o.update(i as f64);
    }
    t.merge(&o);
    d.merge(&o);
    ensure!(t.serialize() == d.serialize(), "C11.tdigest.diverges_after_merge", "{ctx}: images differ after merging the same digest into both");
    info.label(match n {
        0 => "tdigest:empty",
        1 => "tdigest:single",
        _ => "tdigest:multi",
    });
    info.nontrivial = n > 1;
    Ok(())
}

pub fn td_layout(c: &TdCase, info: &mut CaseInfo) -> Result<(), Fail> {
    let mut t = TDigestMut::new(c.k);
    let (mut min, mut max, mut n) = (f64::INFINITY, f64::NEG_INFINITY, 0u64);
    let mut sum = 0.0f64;
    for r in &c.runs {
        for v in c10::gen_values(r) {
            t.update(v);
            min = min.min(v);
            max = max.max(v);
            n += 1;
            sum += v / 1e300; // scaled to avoid overflow; only used for a sanity comparison
        }
    }
    let _ = sum;
    let ctx = format!("k {} n {n}", c.k);
    let bytes = t.serialize();
    let im = tspec::decode(&bytes, false).map_err(|e| Fail { clause: "C12.tdigest.undecodable".into(), detail: format!("{ctx}: {e}") })?;
    ensure!(im.k == c.k, "C12.tdigest.k", "{ctx}: k field {}", im.k);
    ensure!(im.empty == (n == 0) && im.single == (n == 1), "C12.tdigest.flags", "{ctx}: empty {} single {}", im.empty, im.single);
    if n > 0 {
        ensure!(im.min == min && im.max == max, "C12.tdigest.min_max", "{ctx}: min/max fields ({}, {}) exact ({min}, {max})", im.min, im.max);
        let w: u64 = im.centroids.iter().map(|c| c.1).sum::<u64>() + im.buffered.len() as u64;
        ensure!(w == n, "C12.tdigest.weights", "{ctx}: centroid weights + buffered sum to {w}");
        ensure!(im.centroids.windows(2).all(|p| p[0].0 <= p[1].0), "C12.tdigest.sorted", "{ctx}: centroid means not ascending");
        ensure!(im.centroids.iter().all(|c| c.1 > 0 && c.0.is_finite()), "C12.tdigest.centroids", "{ctx}: zero weight or non-finite mean");
        if n > 1 {
            // the ends of a digest built by the algorithm are single points at the extremes
            ensure!(im.centroids[0] == (min, 1) || im.centroids[0].0 >= min, "C12.tdigest.first", "{ctx}: first centroid {:?}", im.centroids[0]);
        }
    }
    info.label(match n {
        0 => "tdigest:empty",
        1 => "tdigest:single",
        _ => "tdigest:multi",
    });
    info.nontrivial = n > 1;
    Ok(())
}

// ------------------------------------------------------------------ Count-Min and Bloom (C11)

pub fn cm_roundtrip(c: &c08::Case, info: &mut CaseInfo) -> Result<(), Fail> {
    fn go<T: c08::Cnt + PartialEq>(c: &c08::Case, info: &mut CaseInfo) -> Result<(), Fail> {
        let mut s = CountMinSketch::<T>::with_seed(c.num_hashes, c.num_buckets, c.seed);
        let mut total = 0u64;
        let mut sm = SplitMix(c.seed ^ 0x77);
        let domain = (4 * c.num_buckets as u64).min(600);
        let n = c.steps.len() as u64 * 3;
        for _ in 0..n {
            let head = T::MAXV - total;
            if head == 0 {
                break;
            }
            let w = 1 + sm.below(head.min(20));
            s.update_with_weight(sm.below(domain), T::from_u64(w));
            total += w;
        }
        let ctx = format!("{} {}x{} total {total}", T::NAME, c.num_hashes, c.num_buckets);
        let bytes = s.serialize();
        let mut d = CountMinSketch::<T>::deserialize_with_seed(&bytes, c.seed).map_err(|e| Fail { clause: "C11.countmin.rejected".into(), detail: format!("{ctx}: {e}") })?;
        ensure!(d == s, "C11.countmin.state", "{ctx}: deserialized sketch differs");
        ensure!(d.serialize() == bytes, "C11.countmin.reserialize", "{ctx}: re-serialized image differs");
        for id in 0..domain {
            ensure!(d.estimate(id) == s.estimate(id) && d.upper_bound(id) == s.upper_bound(id) && d.lower_bound(id) == s.lower_bound(id), "C11.countmin.estimates", "{ctx}: estimates for {id} differ");
        }
        if total < T::MAXV {
            s.update(5u64);
            d.update(5u64);
        }
        let mut o = CountMinSketch::<T>::with_seed(c.num_hashes, c.num_buckets, c.seed);
        let (mut a, mut b) = (o.clone(), o.clone());
        a.merge(&s);
        b.merge(&d);
        o.merge(&d);
        ensure!(a == b && s == d, "C11.countmin.diverges", "{ctx}: behaviour differs after update / merge");
        info.label(format!("countmin:{}", T::NAME));
        info.nontrivial = total > 0;
        Ok(())
    }
    match c.ty % 8 {
        0 => go::<u8>(c, info),
        1 => go::<u16>(c, info),
        2 => go::<u32>(c, info),
        3 => go::<u64>(c, info),
        4 => go::<i8>(c, info),
        5 => go::<i16>(c, info),
        6 => go::<i32>(c, info),
        _ => go::<i64>(c, info),
    }
}

/// C12 for Count-Min and Bloom: the layout clauses live in C08 / C09 (they decode the image with an
/// independent decoder after every step and compare with the reference-hash model).
pub fn cm_layout(c: &c08::Case, info: &mut CaseInfo) -> Result<(), Fail> {
    match c08::run_case(c, info) {
        Err(f) if f.clause.starts_with("C08.image") || f.clause == "C08.table" => Err(Fail { clause: f.clause.replace("C08.", "C12.countmin."), detail: f.detail }),
        _ => Ok(()),
    }
}
pub fn bloom_layout(c: &c09::Case, info: &mut CaseInfo) -> Result<(), Fail> {
    match c09::run_case(c, info) {
        Err(f) if f.clause.starts_with("C09.image") || f.clause == "C09.bits" => Err(Fail { clause: f.clause.replace("C09.", "C12.bloom."), detail: f.detail }),
        _ => Ok(()),
    }
}
/// C11 for Bloom: c09's RoundTrip step replaces the filter by its deserialized copy and keeps
/// checking it against the model; here additionally equality and byte identity.
pub fn bloom_roundtrip(c: &c09::Case, info: &mut CaseInfo) -> Result<(), Fail> {
    use datasketches::bloom::{BloomFilter, BloomFilterBuilder};
    let mut f = BloomFilterBuilder::with_size(c.num_bits, c.num_hashes).seed(c.seed).build();
    let mut sm = SplitMix(c.seed ^ 0x31);
    let n = c.steps.len() * 4;
    for _ in 0..n {
        f.insert(sm.next());
    }
    let bytes = f.serialize();
    let mut d = BloomFilter::deserialize(&bytes).map_err(|e| Fail { clause: "C11.bloom.rejected".into(), detail: format!("{e}") })?;
    ensure!(d == f, "C11.bloom.state", "deserialized filter differs ({} bits, {} hashes)", c.num_bits, c.num_hashes);
    ensure!(d.serialize() == bytes, "C11.bloom.reserialize", "re-serialized image differs");
    let mut sm2 = SplitMix(c.seed ^ 0x31);
    for _ in 0..n {
        let k = sm2.next();
        ensure!(d.contains(&k), "C11.bloom.false_negative", "inserted key lost by the round trip");
    }
    for _ in 0..20 {
        let k = sm.next();
        ensure!(d.contains(&k) == f.contains(&k), "C11.bloom.contains", "contains differs for a fresh key");
        ensure!(d.contains_and_insert(&k) == f.contains_and_insert(&k), "C11.bloom.diverges", "contains_and_insert differs");
    }
    let g = d.clone();
    d.union(&g);
    f.union(&g);
    f.invert();
    d.invert();
    ensure!(d == f, "C11.bloom.diverges", "filters differ after union / invert");
    info.label("bloom");
    info.nontrivial = n > 0;
    Ok(())
}
