//! C14 - malformed bytes yield an error, never a panic, abort or runaway allocation.
//!
//! E3 byte engine: the parent generates byte strings (deterministic catalogue over seed images,
//! proptest-generated mutation scripts, random bytes with a valid header) and pipes them to
//! `vcheck --worker` children, which run every deserialize entry point and post-operations on
//! accepted values under `catch_unwind` with a capping allocator. A dead child (abort, stack
//! overflow, allocation violation, watchdog) is attributed to the in-flight input.

use super::c10;
use super::PropDef;
use crate::kit::draw::Draw;
use crate::kit::refhash;
use crate::kit::report::{SubReport, Violation};
use crate::kit::runner::{guard, strip_digits, Ctx, Fail, FnSub};
use crate::kit::SplitMix;
use crate::spec::{fi as fspec, hll as hspec, tdigest as tspec, theta as thspec};
use datasketches::bloom::{BloomFilter, BloomFilterBuilder};
use datasketches::common::NumStdDev;
use datasketches::countmin::{CountMinSketch, CountMinValue};
use datasketches::cpc::{CpcSketch, CpcUnion, CpcWrapper};
use datasketches::frequencies::{ErrorType, FrequentItemValue, FrequentItemsSketch};
use datasketches::hll::{HllSketch, HllType, HllUnion};
use datasketches::tdigest::TDigestMut;
use datasketches::theta::{CompactThetaSketch, ThetaSketch};
use proptest::prelude::*;
use serde::{Deserialize, Serialize};
use serde_json::json;
use std::collections::{BTreeMap, BTreeSet};
use std::io::{BufRead, BufReader, Read, Write};
use std::sync::mpsc;
use std::sync::Mutex;
use std::time::Duration;

const NSD: [NumStdDev; 3] = [NumStdDev::One, NumStdDev::Two, NumStdDev::Three];

// =========================================================================================
// worker side

#[derive(Debug, Clone, Serialize, Deserialize)]
pub struct EntryFail {
    pub entry: String,
    pub sig: String,
    pub detail: String,
}

#[derive(Debug, Clone, Serialize, Deserialize, Default)]
pub struct Outcome {
    /// entry points that returned Ok
    pub ok: u32,
    /// some entry point got past the header checks (Ok, or an error that is not about
    /// family / serial version / preamble size)
    pub deep: bool,
    pub fails: Vec<EntryFail>,
}

fn header_error(msg: &str) -> bool {
    msg.contains("family") || msg.contains("serial version") || msg.contains("preamble") || msg.contains("preamble_ints") || msg.contains("insufficient data: serial_version") || msg.contains("insufficient data: family_id")
}

fn entry<T>(out: &mut Outcome, name: &'static str, de: impl FnOnce() -> Result<T, datasketches::error::Error>, post: impl FnOnce(T)) {
    crate::kit::alloc::CURRENT_ENTRY.with(|e| e.set(name));
    let r = guard(|| {
        match de() {
            Ok(v) => {
                post(v);
                Ok((true, true))
            }
            Err(e) => Ok((false, !header_error(&format!("{e}")))),
        }
    });
    match r {
        Ok((ok, deep)) => {
            if ok {
                out.ok += 1;
            }
            out.deep |= deep;
        }
        Err(f) => {
            out.deep = true;
            // guard() clause = "panic:<file>: <message without digits>"
            out.fails.push(EntryFail { entry: name.to_string(), sig: f.clause, detail: f.detail });
        }
    }
}

fn post_hll(mut s: HllSketch) {
    let _ = (s.estimate(), s.is_empty(), s.lg_config_k(), s.target_type());
    for n in NSD {
        let _ = (s.lower_bound(n), s.upper_bound(n));
    }
    let b = s.serialize();
    let _ = HllSketch::deserialize(&b).map(|d| d.estimate());
    let mut u = HllUnion::new(s.lg_config_k().clamp(4, 21));
    u.update(&s);
    u.update(&s);
    for t in [HllType::Hll4, HllType::Hll6, HllType::Hll8] {
        let r = u.to_sketch(t);
        let _ = (r.estimate(), r.serialize());
    }
    let mut sm = SplitMix(7);
    for _ in 0..40 {
        s.update(sm.next());
    }
    let _ = (s.estimate(), s.serialize());
    let mut u2 = HllUnion::new(12);
    u2.update_value(1u64);
    u2.update(&s);
    let _ = (u2.estimate(), u2.to_sketch(HllType::Hll4).serialize());
}

fn post_compact(c: CompactThetaSketch) {
    let _ = (c.estimate(), c.theta(), c.theta64(), c.is_empty(), c.is_estimation_mode(), c.num_retained(), c.is_ordered(), c.seed_hash(), c.iter().count());
    for n in NSD {
        let _ = (c.lower_bound(n), c.upper_bound(n));
    }
    let a = c.serialize();
    let b = c.serialize_compressed();
    let _ = CompactThetaSketch::deserialize(&a).map(|d| (d.estimate(), d.serialize_compressed()));
    let _ = CompactThetaSketch::deserialize(&b).map(|d| (d.estimate(), d.serialize()));
}

fn post_cpc(mut s: CpcSketch, seed: u64) {
    let _ = (s.estimate(), s.is_empty(), s.lg_k(), s.num_coupons());
    for n in NSD {
        let _ = (s.lower_bound(n), s.upper_bound(n));
    }
    let b = s.serialize();
    let _ = CpcSketch::deserialize_with_seed(&b, seed).map(|d| d.estimate());
    let _ = CpcWrapper::new(&b).map(|w| w.estimate());
    // operations that materialise the k x 64 matrix are proportional to the configuration,
    // not to the input: only exercised for moderate k
    if s.lg_k() <= 16 {
        let _ = s.validate();
        // merge partners are built with the seed the image was read under (documented precondition)
        let mut u = CpcUnion::with_seed(s.lg_k(), seed);
        u.update(&s);
        u.update(&s);
        let r = u.to_sketch();
        let _ = (r.estimate(), r.serialize());
        let mut sm = SplitMix(9);
        for _ in 0..40 {
            s.update(sm.next());
        }
        let _ = (s.estimate(), s.validate(), s.serialize());
        let mut u2 = CpcUnion::with_seed(10, seed);
        let mut o = CpcSketch::with_seed(10, seed);
        o.update(3u64);
        u2.update(&o);
        u2.update(&s);
        let _ = u2.to_sketch().serialize();
    }
}

fn post_wrapper(w: CpcWrapper) {
    let _ = (w.estimate(), w.is_empty(), w.lg_k());
    for n in NSD {
        let _ = (w.lower_bound(n), w.upper_bound(n));
    }
}

fn post_td(mut t: TDigestMut) {
    let _ = (t.k(), t.is_empty(), t.total_weight());
    let (mn, mx) = (t.min_value(), t.max_value());
    let _ = (t.quantile(0.0), t.quantile(0.5), t.quantile(1.0), t.quantile(0.999));
    let _ = (t.rank(0.0), t.rank(1e300), t.rank(-1e300), t.rank(f64::INFINITY), t.rank(f64::NEG_INFINITY));
    let _ = (t.cdf(&[]), t.pmf(&[]), t.cdf(&[0.0]), t.pmf(&[-1.0, 1.0]));
    if let (Some(a), Some(b)) = (mn, mx) {
        if a.is_finite() && b.is_finite() {
            let _ = (t.rank(a), t.rank(b), t.rank(a / 2.0 + b / 2.0));
            if a < b {
                let _ = t.cdf(&[a, b]);
            }
        }
    }
    let b = t.serialize();
    let _ = TDigestMut::deserialize(&b, false).map(|mut d| d.quantile(0.3));
    // merging adds weights: only meaningful (and valid) while the total fits u64 comfortably
    if t.total_weight() < (1 << 62) {
        let c = t.clone();
        t.merge(&c);
        for i in 0..30 {
            t.update(i as f64);
        }
        let _ = (t.quantile(0.5), t.rank(3.0), t.serialize());
        let f = t.freeze();
        let _ = (f.quantile(0.2), f.rank(1.0), f.cdf(&[1.0]), f.total_weight());
    }
}

fn post_bloom(mut f: BloomFilter) {
    let _ = (f.is_empty(), f.bits_used(), f.capacity(), f.num_hashes(), f.seed(), f.load_factor(), f.estimated_fpp(), f.contains(&1u64));
    let b = f.serialize();
    let _ = BloomFilter::deserialize(&b).map(|d| d.bits_used());
    for i in 0..10u64 {
        f.insert(i);
        let _ = f.contains_and_insert(&(i + 100));
    }
    {
        // the count an image declares is used by invert() and the load factor before anything recounts it
        let mut h = f.clone();
        h.invert();
        let _ = (h.bits_used(), h.load_factor(), h.estimated_fpp(), h.is_empty(), h.serialize());
        h.invert();
        h.insert(12345u64);
        let _ = h.bits_used();
    }
    let g = f.clone();
    f.union(&g);
    f.intersect(&g);
    f.invert();
    let _ = (f.bits_used(), f.serialize());
    f.reset();
    let fresh = BloomFilterBuilder::with_size(f.capacity() as u64, f.num_hashes()).seed(f.seed()).build();
    if f.is_compatible(&fresh) {
        f.union(&fresh);
    }
}

fn post_cm<T: CountMinValue>(mut s: CountMinSketch<T>) {
    let _ = (s.num_hashes(), s.num_buckets(), s.seed(), s.is_empty(), s.relative_error());
    let tw = s.total_weight().to_f64();
    let _ = (s.estimate(1u64), s.lower_bound(1u64), s.upper_bound(1u64), s.estimate("x"));
    let b = s.serialize();
    let _ = CountMinSketch::<T>::deserialize(&b).map(|d| d.is_empty());
    // further weight is valid use only while the total still fits the counter type
    if tw >= 0.0 && tw < T::MAX.to_f64() / 4.0 && T::MAX.to_f64() > 100.0 {
        s.update(5u64);
        s.update_with_weight("k", T::ONE);
        let c = s.clone();
        let mut fresh = CountMinSketch::<T>::with_seed(s.num_hashes(), s.num_buckets(), s.seed());
        fresh.merge(&c);
        let _ = (fresh.estimate(5u64), fresh.serialize());
    }
}

fn post_fi<T: FrequentItemValue + Eq + std::hash::Hash + Clone>(mut s: FrequentItemsSketch<T>, sample: T) {
    let _ = (s.is_empty(), s.num_active_items(), s.total_weight(), s.maximum_error(), s.epsilon(), s.maximum_map_capacity(), s.current_map_capacity(), s.lg_max_map_size(), s.lg_cur_map_size());
    let _ = (s.estimate(&sample), s.lower_bound(&sample));
    if s.maximum_error() < (1 << 62) && s.total_weight() < (1 << 62) {
        let _ = s.upper_bound(&sample);
        let _ = (s.frequent_items(ErrorType::NoFalsePositives).len(), s.frequent_items(ErrorType::NoFalseNegatives).len());
    }
    let b = s.serialize();
    let _ = FrequentItemsSketch::<T>::deserialize(&b).map(|d| d.total_weight());
    // adding weight is valid use only while the totals fit u64 comfortably
    if s.total_weight() < (1 << 61) && s.maximum_error() < (1 << 61) {
        s.update(sample.clone());
        s.update_with_count(sample.clone(), 3);
        let c = s.clone();
        s.merge(&c);
        let _ = (s.total_weight(), s.serialize());
    }
}

/// Entry points left out for one input (libFuzzer target only, see `prescreen`).
#[derive(Default, Clone, Copy, Debug)]
pub struct Skip {
    pub bloom: bool,
    pub countmin: bool,
    pub fi: bool,
}

pub fn alloc_cap_for(len: usize) -> usize {
    // "out of proportion to the input length": one request above max(64 MiB, 4096 x len)
    (64usize << 20).max(4096 * len)
}

/// The recorded known findings K2-K6 are format-inherent amplifications: an image whose *declared* Bloom bit
/// array, Count-Min table or Frequent Items map exceeds the cap. A coverage-guided campaign would rediscover
/// them forever (an allocation violation cannot be survived in-process), so the libFuzzer target leaves the
/// affected entry points out for exactly those inputs and counts them. The fork-server engine does not
/// pre-screen: there the violations are matched against the known signatures after the fact.
pub fn prescreen(b: &[u8]) -> Skip {
    let cap = alloc_cap_for(b.len()) as u64;
    let mut s = Skip::default();
    if b.len() >= 20 {
        let longs = i32::from_le_bytes([b[16], b[17], b[18], b[19]]);
        s.bloom = longs > 0 && (longs as u64) * 8 + 64 > cap;
    }
    if b.len() >= 13 {
        let buckets = u32::from_le_bytes([b[8], b[9], b[10], b[11]]) as u64;
        let hashes = b[12] as u64;
        s.countmin = buckets.saturating_mul(hashes).saturating_mul(8) + 64 > cap;
    }
    if b.len() >= 5 {
        // 2^lg_cur slots of up to 24 bytes (String keys) + 8 (values) + 2 (states), allocated separately
        s.fi = b[4] >= 22 || b[3] >= 22;
    }
    s
}

pub fn exercise(bytes: &[u8]) -> Outcome {
    exercise_masked(bytes, Skip::default())
}

pub fn exercise_masked(bytes: &[u8], skip: Skip) -> Outcome {
    let mut o = Outcome::default();
    entry(&mut o, "HllSketch::deserialize", || HllSketch::deserialize(bytes), post_hll);
    entry(&mut o, "CompactThetaSketch::deserialize", || CompactThetaSketch::deserialize(bytes), post_compact);
    entry(&mut o, "CompactThetaSketch::deserialize_with_seed", || CompactThetaSketch::deserialize_with_seed(bytes, 12345), post_compact);
    entry(&mut o, "CpcSketch::deserialize", || CpcSketch::deserialize(bytes), |s| post_cpc(s, 9001));
    entry(&mut o, "CpcSketch::deserialize_with_seed", || CpcSketch::deserialize_with_seed(bytes, 12345), |s| post_cpc(s, 12345));
    entry(&mut o, "CpcWrapper::new", || CpcWrapper::new(bytes), post_wrapper);
    entry(&mut o, "TDigestMut::deserialize(f64)", || TDigestMut::deserialize(bytes, false), post_td);
    entry(&mut o, "TDigestMut::deserialize(f32)", || TDigestMut::deserialize(bytes, true), post_td);
    if !skip.bloom {
        entry(&mut o, "BloomFilter::deserialize", || BloomFilter::deserialize(bytes), post_bloom);
    }
    if !skip.countmin {
        entry(&mut o, "CountMinSketch<u8>::deserialize", || CountMinSketch::<u8>::deserialize(bytes), post_cm);
        entry(&mut o, "CountMinSketch<u16>::deserialize", || CountMinSketch::<u16>::deserialize(bytes), post_cm);
        entry(&mut o, "CountMinSketch<u32>::deserialize", || CountMinSketch::<u32>::deserialize(bytes), post_cm);
        entry(&mut o, "CountMinSketch<u64>::deserialize", || CountMinSketch::<u64>::deserialize(bytes), post_cm);
        entry(&mut o, "CountMinSketch<i8>::deserialize", || CountMinSketch::<i8>::deserialize(bytes), post_cm);
        entry(&mut o, "CountMinSketch<i16>::deserialize", || CountMinSketch::<i16>::deserialize(bytes), post_cm);
        entry(&mut o, "CountMinSketch<i32>::deserialize", || CountMinSketch::<i32>::deserialize(bytes), post_cm);
        entry(&mut o, "CountMinSketch<i64>::deserialize", || CountMinSketch::<i64>::deserialize(bytes), post_cm);
    }
    if !skip.fi {
        entry(&mut o, "FrequentItemsSketch<i64>::deserialize", || FrequentItemsSketch::<i64>::deserialize(bytes), |s| post_fi(s, 7i64));
        entry(&mut o, "FrequentItemsSketch<u64>::deserialize", || FrequentItemsSketch::<u64>::deserialize(bytes), |s| post_fi(s, 7u64));
        entry(&mut o, "FrequentItemsSketch<String>::deserialize", || FrequentItemsSketch::<String>::deserialize(bytes), |s| post_fi(s, "seven".to_string()));
    }
    o
}

/// One libFuzzer iteration (target `deser` in /verif/fuzz). The oracle sits inside the target: any panic behind a
/// deserializer or a post-operation, or an allocation request above the cap, aborts the process so that libFuzzer
/// keeps the input. Verdicts are not taken from here: artifacts and the grown corpus are re-judged by the
/// fork-server engine in both build profiles.
pub fn fuzz_one(bytes: &[u8]) {
    static INIT: std::sync::Once = std::sync::Once::new();
    INIT.call_once(|| {
        crate::kit::runner::install_panic_hook();
        crate::kit::alloc::ABORT_ON_VIOLATION.store(true, std::sync::atomic::Ordering::Relaxed);
    });
    let skip = prescreen(bytes);
    crate::kit::alloc::set_cap(alloc_cap_for(bytes.len()));
    let o = exercise_masked(bytes, skip);
    crate::kit::alloc::set_cap(usize::MAX);
    if let Some(f) = o.fails.first() {
        eprintln!("FUZZ-FAIL entry={} sig={} :: {}", f.entry, f.sig, f.detail);
        std::process::abort();
    }
}

/// `vcheck --worker`: frames = u32 LE length + bytes on stdin; one JSON line per input on stdout.
pub fn worker_main() -> ! {
    crate::kit::runner::install_panic_hook();
    let stdin = std::io::stdin();
    let mut inp = stdin.lock();
    let stdout = std::io::stdout();
    let mut out = stdout.lock();
    loop {
        let mut lenb = [0u8; 4];
        if inp.read_exact(&mut lenb).is_err() {
            std::process::exit(0);
        }
        let len = u32::from_le_bytes(lenb) as usize;
        let mut buf = vec![0u8; len];
        if inp.read_exact(&mut buf).is_err() {
            std::process::exit(0);
        }
        crate::kit::alloc::set_cap(alloc_cap_for(len));
        let o = exercise(&buf);
        crate::kit::alloc::set_cap(usize::MAX);
        let line = serde_json::to_string(&o).unwrap();
        let _ = writeln!(out, "{line}");
        let _ = out.flush();
    }
}

// =========================================================================================
// seed corpus

pub fn seeds() -> Vec<(String, Vec<u8>)> {
    let mut v: Vec<(String, Vec<u8>)> = vec![];
    let mut sm = SplitMix(0xC14);
    // HLL: crate-written and spec-encoded variants
    for &lg_k in &[4u8, 5, 8, 10, 12] {
        for (ti, &ty) in [HllType::Hll4, HllType::Hll6, HllType::Hll8].iter().enumerate() {
            for &n in &[0u32, 3, 7, 40, 200, 5000] {
                let mut s = HllSketch::new(lg_k, ty);
                for _ in 0..n {
                    s.update(sm.next());
                }
                v.push((format!("hll/lg{lg_k}/t{ti}/n{n}"), s.serialize()));
            }
            // Hll4 with cur_min > 0 and aux entries
            let k = 1u32 << lg_k;
            let mut regs = vec![0u8; k as usize];
            for r in regs.iter_mut() {
                *r = (3 + sm.next().leading_zeros()).min(63) as u8;
            }
            regs[0] = 40;
            for compact in [true, false] {
                for ooo in [false, true] {
                    v.push((format!("hll/spec/lg{lg_k}/t{ti}/c{compact}/o{ooo}"), hspec::encode_array(lg_k, ti as u8, &regs, 100.0, &hspec::EncOpts { compact, ooo, empty_flag: true })));
                }
            }
            let coupons: Vec<u32> = (0..5).map(|_| refhash::hll_coupon(&sm.next().to_le_bytes())).collect();
            v.push((format!("hll/spec/list/lg{lg_k}/t{ti}"), hspec::encode_list(lg_k, ti as u8, &coupons, &hspec::EncOpts { compact: false, ooo: false, empty_flag: true })));
            if lg_k >= 8 {
                let coupons: Vec<u32> = (0..20).map(|_| refhash::hll_coupon(&sm.next().to_le_bytes())).collect();
                v.push((format!("hll/spec/set/lg{lg_k}/t{ti}"), hspec::encode_set(lg_k, ti as u8, &coupons, 5, &hspec::EncOpts { compact: false, ooo: false, empty_flag: true })));
            }
        }
    }
    // hostile HLL set images: a table filled to the last slot (no valid sketch has a load above 3/4), in the
    // updatable and in the compact form - a reader that accepts them leaves the next probe without a free slot
    for &lg_k in &[10u8, 12] {
        let lg_arr = 5u8;
        let coupons: Vec<u32> = (0..(1u32 << lg_arr)).map(|_| refhash::hll_coupon(&sm.next().to_le_bytes())).collect();
        for compact in [false, true] {
            let mut img = hspec::encode_set(lg_k, 2, &coupons[..20], lg_arr, &hspec::EncOpts { compact, ooo: false, empty_flag: true });
            // rewrite as a full table: count = 2^lg_arr, payload = all coupons
            img.truncate(12);
            img[8..12].copy_from_slice(&(coupons.len() as u32).to_le_bytes());
            for c in &coupons {
                img.extend_from_slice(&c.to_le_bytes());
            }
            v.push((format!("hll/hostile/fullset/lg{lg_k}/c{compact}"), img));
        }
    }
    // hostile HLL set images: an updatable table whose slots repeat coupons while the count field names the
    // distinct ones (the table is fuller than its count says: the growth test never fires)
    for &lg_k in &[10u8, 12] {
        let lg_arr = 5u8;
        let distinct: Vec<u32> = (0..12).map(|_| refhash::hll_coupon(&sm.next().to_le_bytes())).collect();
        for filled in [24usize, 32] {
            let mut img = hspec::encode_set(lg_k, 2, &distinct, lg_arr, &hspec::EncOpts { compact: false, ooo: false, empty_flag: true });
            img.truncate(12);
            img[8..12].copy_from_slice(&(distinct.len() as u32).to_le_bytes());
            for slot in 0..(1usize << lg_arr) {
                let c = if slot < filled { distinct[slot % distinct.len()] } else { 0 };
                img.extend_from_slice(&c.to_le_bytes());
            }
            v.push((format!("hll/hostile/dupset/lg{lg_k}/f{filled}"), img));
        }
    }
    // theta
    let sh = refhash::seed_hash(9001);
    for &n in &[0usize, 1, 2, 7, 8, 9, 100, 600] {
        for est in [false, true] {
            let entries = super::ser_theta::make_entries(n, 40, sm.next());
            let theta = if est && n > 0 { entries[n - 1] + 10 } else { thspec::MAX_THETA };
            let empty = n == 0;
            v.push((format!("theta/v3/n{n}/e{est}"), thspec::encode_v3(&entries, theta, sh, true, empty, true)));
            v.push((format!("theta/v2/n{n}/e{est}"), thspec::encode_v2(&entries, theta, sh, empty)));
            v.push((format!("theta/v1/n{n}/e{est}"), thspec::encode_v1(&entries, theta)));
            if n > 1 {
                v.push((format!("theta/v4/n{n}/e{est}"), thspec::encode_v4(&entries, theta, sh)));
            }
        }
    }
    // images under the non-default seed 12345 (the *_with_seed entry points get past the seed-hash check)
    let sh2 = refhash::seed_hash(12345);
    for &n in &[0usize, 1, 9, 300] {
        let entries = super::ser_theta::make_entries(n, 40, sm.next());
        let theta = if n > 1 { entries[n - 1] + 10 } else { thspec::MAX_THETA };
        v.push((format!("theta/seed12345/v3/n{n}"), thspec::encode_v3(&entries, theta, sh2, true, n == 0, true)));
        if n > 1 {
            v.push((format!("theta/seed12345/v4/n{n}"), thspec::encode_v4(&entries, theta, sh2)));
        }
    }
    for &(lg_k, mult) in &[(4u8, 0.3f64), (4, 12.0), (8, 1.0), (8, 5.0), (10, 0.05)] {
        let mut s = CpcSketch::with_seed(lg_k, 12345);
        for _ in 0..((1u64 << lg_k) as f64 * mult) as u64 {
            s.update(sm.next());
        }
        v.push((format!("cpc/seed12345/lg{lg_k}/x{mult}"), s.serialize()));
    }
    // hostile compressed theta images: the delta width byte at and around 64, with a payload long enough for it
    for &n in &[8usize, 9, 40] {
        let entries = super::ser_theta::make_entries(n, 40, sm.next());
        let theta = entries[n - 1] + 10;
        for bits in [62u8, 63, 64, 65] {
            let mut img = thspec::encode_v4(&entries, theta, sh);
            img[3] = bits;
            let want = 8 * n + 64;
            while img.len() < 24 + want {
                img.push(sm.next() as u8);
            }
            v.push((format!("theta/hostile/v4/n{n}/bits{bits}"), img));
        }
    }
    let mut t = ThetaSketch::builder().lg_k(9).build();
    for _ in 0..3000 {
        t.update(sm.next());
    }
    v.push(("theta/sketch/est".into(), t.compact(true).serialize()));
    v.push(("theta/sketch/est/v4".into(), t.compact(true).serialize_compressed()));
    // CPC: every flavor
    for &lg_k in &[4u8, 8, 11] {
        let k = 1u64 << lg_k;
        for &mult in &[0.0f64, 0.05, 0.3, 1.0, 3.0, 5.0, 12.0, 40.0] {
            let mut s = CpcSketch::new(lg_k);
            for _ in 0..(k as f64 * mult) as u64 {
                s.update(sm.next());
            }
            v.push((format!("cpc/lg{lg_k}/x{mult}"), s.serialize()));
            if mult == 3.0 {
                let mut u = CpcUnion::new(lg_k);
                u.update(&s);
                v.push((format!("cpc/merged/lg{lg_k}"), u.to_sketch().serialize()));
            }
        }
    }
    // many tiny CPC sketches (lg_k 4..=5): window-only images, every window offset up to the maximum
    for i in 0..40u64 {
        let lg_k = 4 + (i % 2) as u8;
        let mut s = CpcSketch::new(lg_k);
        let n = 8u64 << (i / 2);
        for _ in 0..n.min(1 << 22) {
            s.update(sm.next());
        }
        v.push((format!("cpc/tiny/lg{lg_k}/n{n}/{i}"), s.serialize()));
    }
    // t-digest
    for &n in &[0u32, 1, 2, 50, 3000] {
        let mut t = TDigestMut::new(100);
        for _ in 0..n {
            t.update(sm.unit() * 100.0);
        }
        v.push((format!("tdigest/n{n}"), t.serialize()));
    }
    let im = tspec::TdImage { k: 100, empty: false, single: false, reverse_merge: true, min: 0.0, max: 50.0, centroids: vec![(1.0, 3), (2.0, 1), (20.0, 10), (50.0, 1)], buffered: vec![0.0, 5.5] };
    for (nm, enc) in [("double", tspec::Enc::Double), ("float", tspec::Enc::Float), ("compat_double", tspec::Enc::CompatDouble), ("compat_float", tspec::Enc::CompatFloat)] {
        v.push((format!("tdigest/spec/{nm}"), tspec::encode(&im, enc)));
    }
    let _ = c10::k_strategy;
    // Bloom
    for &(bits, h) in &[(1u64, 1u16), (64, 3), (1000, 7), (5000, 16)] {
        let mut f = BloomFilterBuilder::with_size(bits, h).seed(77).build();
        v.push((format!("bloom/empty/b{bits}"), f.serialize()));
        for _ in 0..50 {
            f.insert(sm.next());
        }
        let img = f.serialize();
        let mut dirty = img.clone();
        dirty[24..32].copy_from_slice(&u64::MAX.to_le_bytes());
        v.push((format!("bloom/b{bits}"), img));
        v.push((format!("bloom/dirty/b{bits}"), dirty));
    }
    // Count-Min (each counter type reads the same layout)
    for &(h, b) in &[(1u8, 3u32), (3, 10), (8, 100)] {
        let mut s = CountMinSketch::<u64>::new(h, b);
        v.push((format!("countmin/empty/{h}x{b}"), s.serialize()));
        for _ in 0..40 {
            s.update_with_weight(sm.below(30), 1 + sm.below(3));
        }
        v.push((format!("countmin/{h}x{b}"), s.serialize()));
    }
    let mut s = CountMinSketch::<i64>::new(2, 5);
    s.update_with_weight(1u64, -5);
    s.update_with_weight(2u64, 300);
    v.push(("countmin/i64/negative".into(), s.serialize()));
    // Frequent Items
    for &lg in &[3u8, 6] {
        let mut a: FrequentItemsSketch<u64> = FrequentItemsSketch::new(1 << lg);
        let mut b: FrequentItemsSketch<String> = FrequentItemsSketch::new(1 << lg);
        v.push((format!("fi/empty/lg{lg}"), a.serialize()));
        for i in 0..200u64 {
            a.update_with_count(sm.below(40), 1 + i % 3);
            b.update_with_count(format!("s{}", sm.below(40)), 1 + i % 3);
        }
        v.push((format!("fi/u64/lg{lg}"), a.serialize()));
        v.push((format!("fi/string/lg{lg}"), b.serialize()));
    }
    v.push(("fi/spec/java_empty".into(), fspec::encode(&fspec::FiImage { lg_max: 5, lg_cur: 3, flags: 0, empty: true, stream_weight: 0, offset: 0, counts: vec![], items: fspec::Items::Longs(vec![]) }, 4)));
    v
}

// =========================================================================================
// input generation

const BOUNDARY: [u64; 23] = [0, 1, 2, 3, 7, 8, 31, 32, 33, 63, 64, 0x7f, 0x80, 0xff, 0x100, 0x7fff, 0xffff, 0x7fff_ffff, 0x8000_0000, 0xffff_ffff, 0x7fff_ffff_ffff_ffff, 0xffff_ffff_ffff_fffe, u64::MAX];

/// Deterministic catalogue for one seed image.
pub fn catalogue(seed_img: &[u8], out: &mut Vec<Vec<u8>>) {
    let n = seed_img.len();
    // every field position in the first 48 bytes x width x boundary value
    for off in 0..n.min(48) {
        for &w in &[1usize, 2, 4, 8] {
            if off % w != 0 || off + w > n {
                continue;
            }
            for &bv in &BOUNDARY {
                if w < 8 && bv >= (1u64 << (8 * w)) {
                    continue;
                }
                let mut b = seed_img.to_vec();
                b[off..off + w].copy_from_slice(&bv.to_le_bytes()[..w]);
                if b != seed_img {
                    out.push(b);
                }
            }
            // count fields relative to what remains
            let rem = (n - off - w) as u64;
            for cand in [rem / 4, rem / 4 + 1, rem / 8, rem / 8 + 1, rem / 16 + 1, rem + 1] {
                if w < 8 && cand >= (1u64 << (8 * w)) {
                    continue;
                }
                let mut b = seed_img.to_vec();
                b[off..off + w].copy_from_slice(&cand.to_le_bytes()[..w]);
                if b != seed_img {
                    out.push(b);
                }
            }
        }
    }
    // small images: every value 0..=1200 in every aligned 4-byte field of the first 24 bytes (count fields whose
    // valid range is a narrow band that no boundary value hits, e.g. a CPC coupon count near an offset threshold)
    if n <= 96 {
        for off in (0..n.min(24)).step_by(4) {
            if off + 4 > n {
                break;
            }
            for v in 0u32..=1200 {
                let mut b = seed_img.to_vec();
                b[off..off + 4].copy_from_slice(&v.to_le_bytes());
                if b != seed_img {
                    out.push(b);
                }
            }
        }
    }
    // truncation
    if n <= 4096 {
        for cut in 0..n {
            out.push(seed_img[..cut].to_vec());
        }
    } else {
        for cut in (0..64).chain((64..n).step_by(n / 200 + 1)) {
            out.push(seed_img[..cut].to_vec());
        }
    }
    // extension
    for ext in [1usize, 2, 4, 8, 16] {
        let mut b = seed_img.to_vec();
        b.extend(std::iter::repeat(0xA5u8).take(ext));
        out.push(b);
    }
    // single-bit flips of the first 48 bytes
    for bit in 0..(n.min(48) * 8) {
        let mut b = seed_img.to_vec();
        b[bit / 8] ^= 1 << (bit % 8);
        out.push(b);
    }
}

#[derive(Debug, Clone, Serialize, Deserialize)]
pub enum Mut {
    Flip(u16, u8),
    SetByte(u16, u8),
    Interesting { pos: u16, width: u8, idx: u8 },
    Splice { other: u16, from: u16, len: u16, at: u16 },
    Truncate(u16),
    Extend(u8, u8),
    /// add a small delta to a little-endian field
    Arith { pos: u16, width: u8, delta: i8 },
}

#[derive(Debug, Clone, Serialize, Deserialize)]
pub struct Script {
    pub seed_idx: u16,
    pub muts: Vec<Mut>,
}

pub fn script_strategy() -> impl Strategy<Value = Script> {
    let m = prop_oneof![
        4 => (any::<u16>(), 0u8..8).prop_map(|(p, b)| Mut::Flip(p, b)),
        4 => (any::<u16>(), any::<u8>()).prop_map(|(p, v)| Mut::SetByte(p, v)),
        6 => (any::<u16>(), prop_oneof![Just(1u8), Just(2), Just(4), Just(8)], any::<u8>()).prop_map(|(pos, width, idx)| Mut::Interesting { pos, width, idx }),
        2 => (any::<u16>(), any::<u16>(), 1u16..64, any::<u16>()).prop_map(|(other, from, len, at)| Mut::Splice { other, from, len, at }),
        2 => any::<u16>().prop_map(Mut::Truncate),
        1 => (1u8..32, any::<u8>()).prop_map(|(n, v)| Mut::Extend(n, v)),
        4 => (any::<u16>(), prop_oneof![Just(1u8), Just(2), Just(4), Just(8)], any::<i8>()).prop_map(|(pos, width, delta)| Mut::Arith { pos, width, delta }),
    ];
    (any::<u16>(), proptest::collection::vec(m, 1..=4)).prop_map(|(seed_idx, muts)| Script { seed_idx, muts })
}

/// positions are biased towards the preamble: a u16 maps onto 0..len with the first 64 bytes
/// taking half of the range
fn pos_of(p: u16, len: usize) -> usize {
    if len == 0 {
        return 0;
    }
    if p < 32768 {
        ((p as usize) * len.min(64)) >> 15
    } else {
        (((p - 32768) as usize) * len) >> 15
    }
}

pub fn apply_script(s: &Script, seeds: &[(String, Vec<u8>)]) -> Vec<u8> {
    let mut b = seeds[crate::kit::pick_idx(s.seed_idx, seeds.len())].1.clone();
    for m in &s.muts {
        match m {
            Mut::Flip(p, bit) => {
                if !b.is_empty() {
                    let i = pos_of(*p, b.len()).min(b.len() - 1);
                    b[i] ^= 1 << bit;
                }
            }
            Mut::SetByte(p, v) => {
                if !b.is_empty() {
                    let i = pos_of(*p, b.len()).min(b.len() - 1);
                    b[i] = *v;
                }
            }
            Mut::Interesting { pos, width, idx } => {
                let w = *width as usize;
                if b.len() >= w {
                    let i = (pos_of(*pos, b.len()) / w * w).min(b.len() - w);
                    let v = BOUNDARY[*idx as usize % BOUNDARY.len()];
                    b[i..i + w].copy_from_slice(&v.to_le_bytes()[..w]);
                }
            }
            Mut::Splice { other, from, len, at } => {
                let o = &seeds[crate::kit::pick_idx(*other, seeds.len())].1;
                if !o.is_empty() && !b.is_empty() {
                    let f = pos_of(*from, o.len()).min(o.len() - 1);
                    let l = (*len as usize).min(o.len() - f);
                    let a = pos_of(*at, b.len()).min(b.len() - 1);
                    let l = l.min(b.len() - a);
                    b[a..a + l].copy_from_slice(&o[f..f + l]);
                }
            }
            Mut::Truncate(p) => {
                let i = pos_of(*p, b.len() + 1).min(b.len());
                b.truncate(i);
            }
            Mut::Extend(n, v) => b.extend(std::iter::repeat(*v).take(*n as usize)),
            Mut::Arith { pos, width, delta } => {
                let w = *width as usize;
                if b.len() >= w {
                    let i = (pos_of(*pos, b.len()) / w * w).min(b.len() - w);
                    let mut x = [0u8; 8];
                    x[..w].copy_from_slice(&b[i..i + w]);
                    let v = u64::from_le_bytes(x).wrapping_add(*delta as i64 as u64);
                    b[i..i + w].copy_from_slice(&v.to_le_bytes()[..w]);
                }
            }
        }
    }
    b
}

// =========================================================================================
// parent side

pub struct InputResult {
    pub outcome: Outcome,
}

fn signature_from_stderr(err: &str, status: &str) -> (String, String) {
    if let Some(i) = err.find("ALLOC-VIOLATION") {
        let block = &err[i..];
        let size = block.lines().next().unwrap_or("").to_string();
        // innermost frame whose source file belongs to the crate (line tables survive inlining)
        let file = block
            .lines()
            .filter_map(|l| {
                let l = l.trim();
                let rest = l.strip_prefix("at ")?;
                let i = rest.find("/datasketches/src/")?;
                let f = &rest[i + "/datasketches/src/".len()..];
                Some(f.split(':').next().unwrap_or(f).to_string())
            })
            .next()
            .unwrap_or_else(|| "?".into());
        // entry point with type parameters removed: CountMinSketch<u8>::deserialize -> CountMinSketch::deserialize
        let entry = size.split("entry=").nth(1).unwrap_or("?").trim().to_string();
        let entry = match (entry.find('<'), entry.find('>')) {
            (Some(a), Some(b)) if a < b => format!("{}{}", &entry[..a], &entry[b + 1..]),
            _ => entry,
        };
        return (format!("alloc:{file}@{entry}"), size);
    }
    if err.contains("stack overflow") {
        return ("abort:stack overflow".into(), err.lines().last().unwrap_or("").to_string());
    }
    let last = err.lines().rev().find(|l| !l.trim().is_empty()).unwrap_or("").to_string();
    (format!("abort:{}", strip_digits(status)), last)
}


struct Child {
    proc: std::process::Child,
    stdin: std::process::ChildStdin,
    lines: mpsc::Receiver<String>,
    err: std::sync::Arc<Mutex<String>>,
    err_thread: Option<std::thread::JoinHandle<()>>,
}

fn spawn_worker(bin: &str) -> Child {
    let mut proc = std::process::Command::new(bin)
        .arg("--worker")
        .env("RUST_BACKTRACE", "0")
        .stdin(std::process::Stdio::piped())
        .stdout(std::process::Stdio::piped())
        .stderr(std::process::Stdio::piped())
        .spawn()
        .expect("spawn worker");
    let stdin = proc.stdin.take().unwrap();
    let stdout = proc.stdout.take().unwrap();
    let mut stderr = proc.stderr.take().unwrap();
    let (tx, rx) = mpsc::channel();
    std::thread::spawn(move || {
        let r = BufReader::new(stdout);
        for l in r.lines().map_while(Result::ok) {
            if tx.send(l).is_err() {
                break;
            }
        }
    });
    let err = std::sync::Arc::new(Mutex::new(String::new()));
    let e2 = err.clone();
    let err_thread = std::thread::spawn(move || {
        let mut buf = [0u8; 4096];
        loop {
            match stderr.read(&mut buf) {
                Ok(0) | Err(_) => break,
                Ok(n) => {
                    let mut g = e2.lock().unwrap();
                    if g.len() < 1 << 20 {
                        g.push_str(&String::from_utf8_lossy(&buf[..n]));
                    }
                }
            }
        }
    });
    Child { proc, stdin, lines: rx, err, err_thread: Some(err_thread) }
}

/// Run one input in `child`; on child death / stall returns a synthetic failure and the child is replaced.
fn run_one(child: &mut Child, bin: &str, input: &[u8], timeout: Duration) -> (Outcome, Option<String>) {
    let mut frame = (input.len() as u32).to_le_bytes().to_vec();
    frame.extend_from_slice(input);
    let write_ok = child.stdin.write_all(&frame).and_then(|_| child.stdin.flush()).is_ok();
    let got = if write_ok { child.lines.recv_timeout(timeout) } else { Err(mpsc::RecvTimeoutError::Disconnected) };
    match got {
        Ok(line) => match serde_json::from_str::<Outcome>(&line) {
            Ok(o) => (o, None),
            Err(e) => (Outcome::default(), Some(format!("unparsable worker line: {e}"))),
        },
        Err(mpsc::RecvTimeoutError::Timeout) => {
            let _ = child.proc.kill();
            let _ = child.proc.wait();
            *child = spawn_worker(bin);
            (Outcome { ok: 0, deep: true, fails: vec![EntryFail { entry: "?".into(), sig: "stall".into(), detail: format!("no answer within {:?}", timeout) }] }, None)
        }
        Err(mpsc::RecvTimeoutError::Disconnected) => {
            let status = child.proc.wait().map(|s| format!("{s}")).unwrap_or_else(|_| "?".into());
            // the child is dead, so its stderr reaches EOF: wait for the reader to drain it (a fixed sleep lost the
            // ALLOC-VIOLATION text under load and turned a known signature into an anonymous abort)
            if let Some(h) = child.err_thread.take() {
                let _ = h.join();
            }
            let err = child.err.lock().unwrap().clone();
            let (sig, detail) = signature_from_stderr(&err, &status);
            *child = spawn_worker(bin);
            (Outcome { ok: 0, deep: true, fails: vec![EntryFail { entry: "(process)".into(), sig, detail }] }, None)
        }
    }
}

pub struct EngineStats {
    pub inputs: u64,
    pub deep: u64,
    pub accepted: u64,
    pub nontrivial: BTreeSet<u64>,
    /// signature -> (count, example input hex, entry, detail)
    pub sigs: BTreeMap<String, (u64, String, String, String)>,
    pub stalls: Vec<Vec<u8>>,
    pub infra: Vec<String>,
}

/// Run all inputs through `threads` workers of binary `bin`.
pub fn run_inputs(inputs: &[Vec<u8>], bin: &str, threads: usize, timeout: Duration) -> EngineStats {
    let next = std::sync::atomic::AtomicUsize::new(0);
    let agg: Mutex<EngineStats> = Mutex::new(EngineStats { inputs: 0, deep: 0, accepted: 0, nontrivial: BTreeSet::new(), sigs: BTreeMap::new(), stalls: vec![], infra: vec![] });
    std::thread::scope(|sc| {
        for _ in 0..threads.max(1) {
            sc.spawn(|| {
                let mut child = spawn_worker(bin);
                let mut local = EngineStats { inputs: 0, deep: 0, accepted: 0, nontrivial: BTreeSet::new(), sigs: BTreeMap::new(), stalls: vec![], infra: vec![] };
                loop {
                    let i = next.fetch_add(1, std::sync::atomic::Ordering::Relaxed);
                    if i >= inputs.len() {
                        break;
                    }
                    let (mut o, infra) = run_one(&mut child, bin, &inputs[i], timeout);
                    // an anonymous process death must reproduce from the saved input alone (fresh worker); otherwise
                    // the second, attributable outcome is the one that counts
                    if o.fails.iter().any(|f| f.entry == "(process)" && f.sig.starts_with("abort:")) {
                        let (o2, _) = run_one(&mut child, bin, &inputs[i], timeout);
                        o = o2;
                    }
                    if let Some(m) = infra {
                        local.infra.push(m);
                    }
                    local.inputs += 1;
                    if o.deep {
                        local.deep += 1;
                        local.nontrivial.insert(crate::kit::fnv64(&inputs[i]));
                    }
                    if o.ok > 0 {
                        local.accepted += 1;
                    }
                    for f in o.fails {
                        if f.sig == "stall" {
                            local.stalls.push(inputs[i].clone());
                            continue;
                        }
                        let e = local.sigs.entry(f.sig.clone()).or_insert((0, hex(&inputs[i]), f.entry.clone(), f.detail.clone()));
                        e.0 += 1;
                        if inputs[i].len() * 2 < e.1.len() {
                            // keep the shortest example
                            *e = (e.0, hex(&inputs[i]), f.entry.clone(), f.detail.clone());
                        }
                    }
                }
                let _ = child.proc.kill();
                let _ = child.proc.wait();
                let mut a = agg.lock().unwrap();
                a.inputs += local.inputs;
                a.deep += local.deep;
                a.accepted += local.accepted;
                a.nontrivial.extend(local.nontrivial);
                a.stalls.extend(local.stalls);
                a.infra.extend(local.infra);
                for (k, v) in local.sigs {
                    let e = a.sigs.entry(k).or_insert((0, v.1.clone(), v.2.clone(), v.3.clone()));
                    e.0 += v.0;
                    if v.1.len() < e.1.len() {
                        e.1 = v.1;
                        e.2 = v.2;
                        e.3 = v.3;
                    }
                }
            });
        }
    });
    agg.into_inner().unwrap()
}

pub fn hex(b: &[u8]) -> String {
    b.iter().map(|x| format!("{x:02x}")).collect()
}
pub fn unhex(s: &str) -> Vec<u8> {
    (0..s.len() / 2).filter_map(|i| u8::from_str_radix(&s[2 * i..2 * i + 2], 16).ok()).collect()
}

/// The worker is this very binary (release) or its sibling built with the `dbg` profile.
pub fn worker_bin(profile: &str) -> String {
    let me = std::env::current_exe().unwrap_or_else(|_| std::path::PathBuf::from(format!("{}/target/release/vcheck", crate::verif_root())));
    let my_profile = if cfg!(debug_assertions) { "dbg" } else { "release" };
    if profile == my_profile {
        return me.to_string_lossy().into_owned();
    }
    // <target>/<profile>/vcheck
    match me.parent().and_then(|p| p.parent()) {
        Some(t) => t.join(profile).join("vcheck").to_string_lossy().into_owned(),
        None => format!("{}/target/{}/vcheck", crate::verif_root(), profile),
    }
}

fn engine(ctx: &Ctx, name: &'static str, inputs: Vec<Vec<u8>>, rule: &str) -> SubReport {
    let mut rep = SubReport { rule: rule.to_string(), ..Default::default() };
    let timeout = Duration::from_secs(ctx.tier.pick(10, 60));
    for profile in ["release", "dbg"] {
        let bin = worker_bin(profile);
        if !std::path::Path::new(&bin).exists() {
            rep.inconclusive.push(format!("{bin} missing: the {profile} pass did not run"));
            continue;
        }
        let st = run_inputs(&inputs, &bin, ctx.threads, timeout);
        rep.evaluations += st.inputs;
        rep.nontrivial.extend(st.nontrivial.iter().copied());
        *rep.classes.entry(format!("{profile}:reached_payload_parsing")).or_insert(0) += st.deep;
        *rep.classes.entry(format!("{profile}:accepted_by_some_entry_point")).or_insert(0) += st.accepted;
        for m in st.infra {
            rep.inconclusive.push(m);
        }
        // stalls: reproduce twice in isolation with a larger budget
        for s in st.stalls.iter().take(3) {
            let mut again = 0;
            for _ in 0..2 {
                let mut c = spawn_worker(&bin);
                let (o, _) = run_one(&mut c, &bin, s, timeout * 6);
                if o.fails.iter().any(|f| f.sig == "stall") {
                    again += 1;
                }
                let _ = c.proc.kill();
                let _ = c.proc.wait();
            }
            if again == 2 {
                rep.violations.push(Violation { sub: name.into(), clause: format!("stall[{profile}]"), detail: format!("input of {} bytes makes a deserializer or post-operation run longer than {:?}, reproduced twice in isolation", s.len(), timeout * 6), case: json!({"hex": hex(s), "profile": profile}) });
            } else {
                rep.inconclusive.push(format!("a {}-byte input stalled once but did not reproduce ({again}/2)", s.len()));
            }
        }
        for (sig, (count, ex, entry, detail)) in st.sigs {
            let full = sig.clone();
            if ctx.is_known(&full) {
                *rep.known_hits.entry(full).or_insert(0) += count;
                continue;
            }
            rep.violations.push(Violation {
                sub: name.into(),
                clause: full,
                detail: format!("[{profile}] {entry}: {detail} ({count} inputs; shortest example {} bytes)", ex.len() / 2),
                case: json!({"hex": ex, "profile": profile, "entry": entry}),
            });
        }
    }
    let mut seen = BTreeSet::new();
    rep.violations.retain(|v| seen.insert(v.clause.clone()));
    for i in inputs.iter().take(3) {
        rep.samples.push(json!({"len": i.len(), "hex": hex(&i[..i.len().min(48)])}));
    }
    rep
}

fn catalogue_sub(ctx: &Ctx) -> SubReport {
    let sd = seeds();
    let mut inputs = vec![];
    for (_, img) in &sd {
        inputs.push(img.clone());
        catalogue(img, &mut inputs);
    }
    // dedupe
    let mut seen = BTreeSet::new();
    inputs.retain(|i| seen.insert(crate::kit::fnv64(i) ^ (i.len() as u64) << 48));
    let mut rep = engine(ctx, "catalogue", inputs, "deterministic catalogue over ~400 seed images (every family, variant and mode, crate-written and spec-encoded): every aligned 1/2/4/8-byte field position of the first 48 bytes x 18 boundary values + 6 length-relative values, every value 0..=1200 in the 4-byte fields of the first 24 bytes of images up to 96 bytes, truncation at every offset (images <= 4 KB), extension by 1..16 bytes, every single-bit flip of the first 48 bytes; each input goes through 20 entry points and, when accepted, accessors / updates / merges / re-serialization; run in the release and the debug-assertions build. non-trivial = gets past the family / version / preamble checks of some entry point; distinct by content");
    rep.extra.insert("seed_images".into(), json!(sd.len()));
    rep
}

fn scripts_sub(ctx: &Ctx) -> SubReport {
    let sd = seeds();
    let n = ctx.cases(1_200_000, 12_000_000) as usize;
    let mut d = Draw::new(ctx.seed, ctx.prop, "scripts", 0);
    let strat = script_strategy();
    let mut inputs = Vec::with_capacity(n);
    for _ in 0..n {
        let s = d.draw(&strat);
        inputs.push(apply_script(&s, &sd));
    }
    // random bytes behind a valid 3-byte header
    let fams: [(u8, u8); 9] = [(1, 7), (1, 16), (3, 3), (4, 3), (2, 3), (1, 20), (1, 21), (1, 18), (1, 10)];
    for i in 0..n / 10 {
        let (ver, fam) = fams[i % fams.len()];
        let len = d.below(120) as usize;
        let mut b = vec![d.below(12) as u8, ver, fam];
        for _ in 0..len {
            b.push(d.below(256) as u8);
        }
        inputs.push(b);
    }
    engine(ctx, "mutation_scripts", inputs, "proptest-generated mutation scripts (1..4 of: bit flip, byte set, boundary value in a 1/2/4/8-byte field, splice from another seed, truncate, extend, field arithmetic; positions biased to the preamble) applied to the seed images, plus random bytes behind a valid (preamble, version, family) header; same oracle and both build profiles")
}

// =========================================================================================
// E4: coverage-guided generation (libFuzzer) judged by the fork-server engine

fn read_dir_files(dir: &str, max_len: usize) -> Vec<Vec<u8>> {
    let mut names: Vec<std::path::PathBuf> = match std::fs::read_dir(dir) {
        Ok(rd) => rd.filter_map(|e| e.ok()).map(|e| e.path()).filter(|p| p.is_file()).collect(),
        Err(_) => vec![],
    };
    names.sort();
    names.into_iter().filter_map(|p| std::fs::read(p).ok()).filter(|b| b.len() <= max_len).collect()
}

/// Committed regression corpus (coverage-distinct inputs kept from earlier libFuzzer campaigns, minimised with
/// `tools/refresh_corpus.sh`): replayed through the engine in every tier.
fn corpus_sub(ctx: &Ctx) -> SubReport {
    let dir = format!("{}/corpus/c14", crate::verif_root());
    let inputs = read_dir_files(&dir, 1 << 20);
    let n = inputs.len();
    let mut rep = engine(ctx, "fuzz_corpus", inputs, "committed corpus of coverage-distinct inputs found by earlier libFuzzer campaigns over the `deser` target (seeded with the C14 seed images), replayed through the 20 entry points and post-operations in both build profiles; non-trivial = gets past the header checks of some entry point");
    rep.extra.insert("corpus_files".into(), json!(n));
    if n == 0 {
        rep.inconclusive.push(format!("{dir} is empty or missing"));
    }
    rep
}

/// Thorough tier only: build the libFuzzer target, run a fixed-work campaign (`-jobs`), then judge every artifact
/// and every corpus unit it produced with the engine (both profiles). libFuzzer is the generator; the verdict
/// comes from the same oracle as the other sub-checks, so a crash of the fuzzer itself is never a violation.
fn libfuzzer_sub(ctx: &Ctx) -> SubReport {
    let rule = "coverage-guided campaign: libFuzzer over the `deser` target (all 20 entry points + post-operations, capping allocator, debug assertions on), started from the seed images and the committed corpus, fixed work per job; every crash artifact and every corpus unit is then re-judged by the fork-server engine in both build profiles. non-trivial = gets past the header checks of some entry point";
    let mut rep = SubReport { rule: rule.to_string(), ..Default::default() };
    if ctx.tier == crate::kit::Tier::Quick {
        rep.rule = "(thorough tier only: coverage-guided libFuzzer campaign; the quick tier replays the committed corpus, see fuzz_corpus)".into();
        return rep;
    }
    let root = crate::verif_root();
    let run = |cmd: &mut std::process::Command| -> Result<String, String> {
        match cmd.output() {
            Ok(o) if o.status.success() => Ok(String::from_utf8_lossy(&o.stderr).into_owned()),
            Ok(o) => Err(format!("{:?}: {}", o.status, String::from_utf8_lossy(&o.stderr).lines().rev().take(6).collect::<Vec<_>>().join(" | "))),
            Err(e) => Err(format!("{e}")),
        }
    };
    let built = run(std::process::Command::new("cargo")
        .args(["+nightly", "fuzz", "build", "-s", "none", "--fuzz-dir"])
        .arg(format!("{root}/fuzz"))
        .arg("--target-dir")
        .arg(format!("{root}/fuzz/target"))
        .arg("deser")
        .env("CARGO_NET_OFFLINE", "true")
        // a copy of /verif builds its harness into its own CARGO_TARGET_DIR; the fuzz crate has its own
        .env_remove("CARGO_TARGET_DIR")
        .current_dir(&root));
    if let Err(e) = built {
        rep.inconclusive.push(format!("cargo +nightly fuzz build failed, the coverage-guided campaign did not run: {e}"));
        return rep;
    }
    let bin = format!("{root}/fuzz/target/x86_64-unknown-linux-gnu/release/deser");
    let work = format!("{root}/fuzz/corpus/run-{}", std::process::id());
    let corpus = format!("{work}/corpus");
    let arts = format!("{work}/artifacts/");
    let _ = std::fs::remove_dir_all(&work);
    std::fs::create_dir_all(&corpus).expect("corpus dir");
    std::fs::create_dir_all(&arts).expect("artifact dir");
    let mut initial = BTreeSet::new();
    for (i, (_, img)) in seeds().iter().enumerate() {
        let _ = std::fs::write(format!("{corpus}/seed-{i:04}"), img);
        initial.insert(crate::kit::fnv64(img));
    }
    for (i, b) in read_dir_files(&format!("{root}/corpus/c14"), 1 << 20).iter().enumerate() {
        let _ = std::fs::write(format!("{corpus}/kept-{i:05}"), b);
        initial.insert(crate::kit::fnv64(b));
    }
    let jobs = ctx.threads.max(1);
    let runs = ctx.cases(0, 1_500_000);
    let out = std::process::Command::new(&bin)
        .arg(&corpus)
        .arg(format!("-jobs={jobs}"))
        .arg(format!("-workers={jobs}"))
        .arg(format!("-runs={runs}"))
        .arg(format!("-seed={}", ctx.seed.wrapping_mul(2654435761) % 4_000_000_000 + 1))
        .args(["-max_len=4096", "-len_control=0", "-timeout=60", "-rss_limit_mb=8192", "-reload=1", "-print_final_stats=1"])
        .arg(format!("-artifact_prefix={arts}"))
        .current_dir(&work)
        .output();
    if let Err(e) = &out {
        rep.inconclusive.push(format!("could not start the libFuzzer binary: {e}"));
        return rep;
    }
    // per-job logs: executed units, coverage
    let mut execs = 0u64;
    let mut cov = 0u64;
    let mut ft = 0u64;
    for j in 0..jobs {
        if let Ok(log) = std::fs::read_to_string(format!("{work}/fuzz-{j}.log")) {
            for l in log.lines() {
                if let Some(v) = l.strip_prefix("stat::number_of_executed_units:") {
                    execs += v.trim().parse::<u64>().unwrap_or(0);
                }
                if l.starts_with('#') && l.contains(" cov: ") {
                    let grab = |k: &str| l.split(k).nth(1).and_then(|t| t.split_whitespace().next()).and_then(|t| t.parse::<u64>().ok()).unwrap_or(0);
                    cov = cov.max(grab(" cov: "));
                    ft = ft.max(grab(" ft: "));
                }
            }
        }
    }
    let artifacts = read_dir_files(&arts, 1 << 20);
    let units = read_dir_files(&corpus, 1 << 20);
    let new_units: Vec<Vec<u8>> = units.into_iter().filter(|u| !initial.contains(&crate::kit::fnv64(u))).collect();
    let (n_art, n_new) = (artifacts.len(), new_units.len());
    let mut inputs = artifacts;
    inputs.extend(new_units);
    let mut judged = engine(ctx, "libfuzzer", inputs, rule);
    judged.evaluations += execs;
    judged.extra.insert("libfuzzer_executions".into(), json!(execs));
    judged.extra.insert("libfuzzer_jobs".into(), json!(jobs));
    judged.extra.insert("libfuzzer_edges_covered".into(), json!(cov));
    judged.extra.insert("libfuzzer_features".into(), json!(ft));
    judged.extra.insert("artifacts_judged".into(), json!(n_art));
    judged.extra.insert("new_corpus_units_judged".into(), json!(n_new));
    if execs == 0 {
        judged.inconclusive.push("the libFuzzer jobs reported no executed units".into());
    }
    // keep the grown corpus for tools/refresh_corpus.sh only when asked; never touch committed files here
    if let Ok(keep) = std::env::var("VERIF_KEEP_FUZZ_CORPUS") {
        let _ = std::fs::create_dir_all(&keep);
        for (i, b) in read_dir_files(&corpus, 1 << 20).iter().enumerate() {
            let _ = std::fs::write(format!("{keep}/u-{:016x}-{i}", crate::kit::fnv64(b)), b);
        }
    }
    let _ = std::fs::remove_dir_all(&work);
    judged
}

fn replay(_ctx: &Ctx, case: &serde_json::Value) -> Result<(), Fail> {
    let bytes = unhex(case["hex"].as_str().unwrap_or(""));
    let profile = case["profile"].as_str().unwrap_or("release");
    let bin = worker_bin(profile);
    let mut c = spawn_worker(&bin);
    let (o, _) = run_one(&mut c, &bin, &bytes, Duration::from_secs(60));
    let _ = c.proc.kill();
    let _ = c.proc.wait();
    match o.fails.first() {
        Some(f) => Err(Fail { clause: f.sig.clone(), detail: format!("[{profile}] {}: {}", f.entry, f.detail) }),
        None => Ok(()),
    }
}

pub fn def() -> PropDef {
    PropDef {
        id: "C14",
        assumptions: vec![
            "'out of proportion to the input length' is made executable as: no single allocation request above max(64 MiB, 4096 x input length)",
            "post-operations on accepted values only perform calls whose preconditions hold for any valid sketch (merges with a clone or a fresh sketch of the same configuration; no further weight once totals approach the counter range)",
            "failure signature = kind + source file of the panic + message without digits (panics), or innermost datasketches frame (allocation violations), so unrelated edits do not change it",
        ],
        subs: vec![
            Box::new(FnSub { name: "catalogue", run: catalogue_sub, replay }),
            Box::new(FnSub { name: "mutation_scripts", run: scripts_sub, replay }),
            Box::new(FnSub { name: "fuzz_corpus", run: corpus_sub, replay }),
            Box::new(FnSub { name: "libfuzzer", run: libfuzzer_sub, replay }),
        ],
        post: None,
    }
}
