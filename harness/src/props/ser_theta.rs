//! Compact theta part of C11 / C12.

use super::c04;
use crate::kit::refhash;
use crate::kit::runner::{CaseInfo, Fail};
use crate::kit::SplitMix;
use crate::spec::theta as spec;
use datasketches::common::NumStdDev;
use datasketches::theta::{CompactThetaSketch, ThetaSketch};
use proptest::prelude::*;
use serde::{Deserialize, Serialize};
use std::collections::BTreeSet;

#[derive(Debug, Clone, Serialize, Deserialize)]
pub enum Source {
    /// built by an update sketch: n hashed keys
    Sketch { lg_k: u8, p: u16, n: u32, stream: u64 },
    /// arbitrary sorted entry set injected through an independently encoded v3 image:
    /// `len` entries whose deltas have exactly `width` significant bits in at least one place
    Entries { len: u16, width: u8, gen: u64, estimating: bool },
    /// the same with entry counts that need a 3-byte count in the compressed form (65536 and above)
    BigEntries { len: u32, width: u8, gen: u64, estimating: bool },
}

#[derive(Debug, Clone, Serialize, Deserialize)]
pub struct Case {
    pub seed: u64,
    pub ordered: bool,
    pub src: Source,
}

pub fn case_strategy() -> impl Strategy<Value = Case> {
    (
        prop_oneof![3 => Just(9001u64), 1 => any::<u64>()].prop_filter("seed hash != 0", |s| refhash::seed_hash(*s) != 0),
        any::<bool>(),
        prop_oneof![
            400 => (5u8..=10, prop_oneof![2 => Just(65535u16), 1 => any::<u16>()], prop_oneof![3 => 0u32..=40, 3 => 0u32..=5000], any::<u64>())
                .prop_map(|(lg_k, p, n, stream)| Source::Sketch { lg_k, p, n, stream }),
            600 => (prop_oneof![3 => 0u16..=40, 2 => 0u16..=4100], 1u8..=63, any::<u64>(), any::<bool>())
                .prop_map(|(len, width, gen, estimating)| Source::Entries { len, width, gen, estimating }),
            // rare and large: the byte-count boundaries of the compressed entry count (255 / 256, 65535 / 65536)
            2 => (prop_oneof![Just(255u32), Just(256), Just(257), Just(65535), Just(65536), Just(65537), 65536u32..=70000, 70000u32..=300000], 1u8..=45, any::<u64>(), any::<bool>())
                .prop_map(|(len, width, gen, estimating)| Source::BigEntries { len, width, gen, estimating }),
        ],
    )
        .prop_map(|(seed, ordered, src)| Case { seed, ordered, src })
}

/// Sorted entries whose deltas have at most `width` bits, exactly `width` bits in one place.
pub fn make_entries(len: usize, width: u8, gen: u64) -> Vec<u64> {
    let mut sm = SplitMix(gen);
    let mut out = Vec::with_capacity(len);
    if len == 0 {
        return out;
    }
    let width = width.clamp(1, 63) as u32;
    let lg_len = 64 - (len as u64).leading_zeros();
    // narrow deltas are small enough that their sum stays below 2^61
    let narrow = width.min(61u32.saturating_sub(lg_len)).max(1);
    let wide_at = sm.below(len as u64) as usize;
    let mut prev = 0u64;
    for i in 0..len {
        let d = if i == wide_at {
            let hi = 1u64 << (width - 1);
            // exactly `width` significant bits; the two bits below the leading one stay clear so
            // that the total remains below 2^63
            hi | ((sm.next() & (hi - 1)) >> 2)
        } else {
            1 + (sm.next() & ((1u64 << narrow) - 1)).saturating_sub(1)
        };
        prev += d.max(1);
        out.push(prev);
    }
    debug_assert!(prev < spec::MAX_THETA - 2);
    out
}

fn reads(c: &CompactThetaSketch) -> [u64; 7] {
    [
        c.estimate().to_bits(),
        c.lower_bound(NumStdDev::One).to_bits(),
        c.lower_bound(NumStdDev::Two).to_bits(),
        c.lower_bound(NumStdDev::Three).to_bits(),
        c.upper_bound(NumStdDev::One).to_bits(),
        c.upper_bound(NumStdDev::Two).to_bits(),
        c.upper_bound(NumStdDev::Three).to_bits(),
    ]
}

pub struct Built {
    pub compact: CompactThetaSketch,
    /// what the sketch is known to hold
    pub entries: BTreeSet<u64>,
    pub theta: u64,
    pub empty: bool,
    pub label: String,
}

pub fn build(c: &Case) -> Result<Built, Fail> {
    match &c.src {
        Source::Sketch { lg_k, p, n, stream } => {
            let pp = c04::p_of(*p);
            let mut s = ThetaSketch::builder().lg_k(*lg_k).sampling_probability(pp).seed(c.seed).build();
            let mut sm = SplitMix(*stream);
            let mut all = BTreeSet::new();
            for _ in 0..*n {
                let k = sm.next();
                s.update(k);
                all.insert(refhash::theta_hash(&k.to_le_bytes(), c.seed));
            }
            let theta = s.theta64();
            let empty = *n == 0;
            let entries: BTreeSet<u64> = all.range(1..theta).copied().collect();
            let compact = s.compact(c.ordered);
            Ok(Built {
                compact,
                entries,
                // an empty sketch is compacted with theta = 1.0 (Java's correctThetaOnCompact)
                theta: if empty { spec::MAX_THETA } else { theta },
                empty,
                label: format!("theta:sketch:{}", if theta < spec::MAX_THETA { "estimating" } else { "exact" }),
            })
        }
        Source::Entries { .. } | Source::BigEntries { .. } => {
            let (len, width, gen, estimating) = match &c.src {
                Source::Entries { len, width, gen, estimating } => (*len as usize, width, gen, estimating),
                Source::BigEntries { len, width, gen, estimating } => (*len as usize, width, gen, estimating),
                _ => unreachable!(),
            };
            let entries = make_entries(len, *width, *gen);
            let last = entries.last().copied().unwrap_or(0);
            let theta = if *estimating && last + 1 < spec::MAX_THETA { last + 1 + (SplitMix(*gen ^ 9).next() % 1000).min(spec::MAX_THETA - last - 2) } else { spec::MAX_THETA };
            let empty = entries.is_empty() && theta == spec::MAX_THETA;
            let mut list = entries.clone();
            if !c.ordered && list.len() > 1 {
                // an unordered image: rotate so that it is not sorted
                list.rotate_left(1);
            }
            let img = spec::encode_v3(&list, theta, refhash::seed_hash(c.seed), c.ordered || list.len() <= 1, empty, false);
            let compact = CompactThetaSketch::deserialize_with_seed(&img, c.seed).map_err(|e| Fail {
                clause: "C11.theta.valid_v3_rejected".into(),
                detail: format!("valid v3 image with {} entries (width {width}) rejected: {e}", list.len()),
            })?;
            Ok(Built { compact, entries: entries.into_iter().collect(), theta, empty, label: format!("theta:entries:width={}", width) })
        }
    }
}

fn same(a: &CompactThetaSketch, b: &CompactThetaSketch, ordered_matters: bool) -> Result<(), String> {
    let (ea, eb): (Vec<u64>, Vec<u64>) = (a.iter().collect(), b.iter().collect());
    if ordered_matters {
        if ea != eb {
            return Err(format!("entry sequences differ ({} vs {})", ea.len(), eb.len()));
        }
    } else {
        let (sa, sb): (BTreeSet<u64>, BTreeSet<u64>) = (ea.iter().copied().collect(), eb.iter().copied().collect());
        if sa != sb || ea.len() != eb.len() {
            return Err(format!("entry sets differ ({} vs {})", ea.len(), eb.len()));
        }
    }
    if a.theta64() != b.theta64() {
        return Err(format!("theta {} vs {}", a.theta64(), b.theta64()));
    }
    if a.is_empty() != b.is_empty() || a.is_estimation_mode() != b.is_estimation_mode() || a.num_retained() != b.num_retained() || a.seed_hash() != b.seed_hash() {
        return Err(format!("flags differ: empty {}/{} estimation {}/{}", a.is_empty(), b.is_empty(), a.is_estimation_mode(), b.is_estimation_mode()));
    }
    if reads(a) != reads(b) {
        return Err(format!("estimate / bounds differ: {} vs {}", a.estimate(), b.estimate()));
    }
    Ok(())
}

pub fn roundtrip(c: &Case, info: &mut CaseInfo) -> Result<(), Fail> {
    let b = build(c)?;
    let s = &b.compact;
    let bytes = s.serialize();
    let d = CompactThetaSketch::deserialize_with_seed(&bytes, c.seed).map_err(|e| Fail { clause: "C11.theta.rejected".into(), detail: format!("{}: own uncompressed image rejected: {e}", b.label) })?;
    if let Err(e) = same(s, &d, true) {
        fail!("C11.theta.uncompressed", "{}: {e}", b.label);
    }
    ensure!(d.is_ordered() == s.is_ordered(), "C11.theta.ordered_flag", "{}: ordered flag {} -> {}", b.label, s.is_ordered(), d.is_ordered());
    ensure!(d.serialize() == bytes, "C11.theta.reserialize", "{}: re-serialized uncompressed image differs", b.label);
    let cb = s.serialize_compressed();
    let dc = CompactThetaSketch::deserialize_with_seed(&cb, c.seed).map_err(|e| Fail {
        clause: "C11.theta.compressed_rejected".into(),
        detail: format!("{}: own compressed image ({} entries) rejected: {e}", b.label, s.num_retained()),
    })?;
    if let Err(e) = same(s, &dc, s.is_ordered()) {
        fail!("C11.theta.compressed", "{} ({} entries, ordered {}): {e}", b.label, s.num_retained(), s.is_ordered());
    }
    ensure!(dc.serialize_compressed() == cb, "C11.theta.reserialize_compressed", "{}: re-serialized compressed image differs", b.label);
    if let Err(e) = same(&d, &dc, s.is_ordered()) {
        fail!("C11.theta.forms_disagree", "{}: compressed and uncompressed forms deserialize differently: {e}", b.label);
    }
    info.label(b.label.split(':').take(2).collect::<Vec<_>>().join(":"));
    info.label(format!("theta:len%8={}", s.num_retained() % 8));
    if cb[1] == 4 {
        info.label("theta:v4_used");
    }
    info.nontrivial = s.num_retained() > 1;
    Ok(())
}

pub fn layout(c: &Case, info: &mut CaseInfo) -> Result<(), Fail> {
    let b = build(c)?;
    let s = &b.compact;
    let want_sorted: Vec<u64> = b.entries.iter().copied().collect();
    let sh = refhash::seed_hash(c.seed);
    // uncompressed
    let bytes = s.serialize();
    let im = spec::decode(&bytes).map_err(|e| Fail { clause: "C12.theta.undecodable".into(), detail: format!("{}: {e}", b.label) })?;
    ensure!(im.ser_ver == 3, "C12.theta.ser_ver", "serialize() wrote serVer {}", im.ser_ver);
    ensure!(im.flags & spec::F_READ_ONLY != 0 && im.flags & spec::F_COMPACT != 0 && im.flags & 1 == 0, "C12.theta.flags", "{}: flags {:#x} lack read-only / compact or claim big-endian", b.label, im.flags);
    ensure!(im.empty == b.empty, "C12.theta.empty_flag", "{}: empty flag {} but the sketch {} data", b.label, im.empty, if b.empty { "never saw" } else { "saw" });
    if !b.empty {
        ensure!(im.seed_hash == sh, "C12.theta.seed_hash", "{}: seed hash {} expected {sh}", b.label, im.seed_hash);
    }
    ensure!(im.theta == b.theta, "C12.theta.theta", "{}: theta {} expected {}", b.label, im.theta, b.theta);
    let est = b.theta < spec::MAX_THETA;
    let want_pre = if b.empty { 1 } else if est { 3 } else if want_sorted.len() == 1 { 1 } else { 2 };
    ensure!(im.pre_longs == want_pre, "C12.theta.pre_longs", "{}: preLongs {} expected {want_pre} ({} entries, estimating {est})", b.label, im.pre_longs, want_sorted.len());
    let mut got = im.entries.clone();
    let ordered_flag = im.flags & spec::F_ORDERED != 0;
    if ordered_flag {
        ensure!(got.windows(2).all(|w| w[0] < w[1]), "C12.theta.ordered_flag", "{}: ordered flag set but the entries are not ascending", b.label);
    }
    if c.ordered && matches!(c.src, Source::Sketch { .. }) {
        ensure!(ordered_flag, "C12.theta.ordered_flag", "{}: ordered sketch written without the ordered flag", b.label);
    }
    got.sort_unstable();
    ensure!(got == want_sorted, "C12.theta.entries", "{}: image holds {} entries, the sketch is known to hold {}", b.label, got.len(), want_sorted.len());
    // compressed
    let cb = s.serialize_compressed();
    let ic = spec::decode(&cb).map_err(|e| Fail { clause: "C12.theta.compressed_undecodable".into(), detail: format!("{} ({} entries): {e}", b.label, want_sorted.len()) })?;
    if ic.ser_ver == 4 {
        ensure!(ic.entries == want_sorted, "C12.theta.v4_entries", "{}: v4 image decodes to {} entries (first mismatch at {:?}), expected {}", b.label, ic.entries.len(), ic.entries.iter().zip(&want_sorted).position(|(a, b)| a != b), want_sorted.len());
        ensure!(ic.theta == b.theta && ic.seed_hash == sh, "C12.theta.v4_header", "{}: v4 theta {} seed hash {}", b.label, ic.theta, ic.seed_hash);
        ensure!(ic.pre_longs == if est { 2 } else { 1 }, "C12.theta.v4_pre_longs", "{}: v4 preLongs {}", b.label, ic.pre_longs);
        ensure!(ic.flags & spec::F_ORDERED != 0 && ic.flags & spec::F_COMPACT != 0 && ic.flags & spec::F_READ_ONLY != 0 && ic.flags & spec::F_EMPTY == 0, "C12.theta.v4_flags", "{}: v4 flags {:#x}", b.label, ic.flags);
        let mut ored = 0u64;
        let mut prev = 0;
        for &e in &want_sorted {
            ored |= e - prev;
            prev = e;
        }
        ensure!(ic.entry_bits as u32 == 64 - ored.leading_zeros(), "C12.theta.v4_entry_bits", "{}: entryBits {} but the widest delta has {} bits", b.label, ic.entry_bits, 64 - ored.leading_zeros());
        ensure!(ic.num_entries_bytes == spec::num_entries_bytes(want_sorted.len()), "C12.theta.v4_num_entries_bytes", "{}: numEntriesBytes {}", b.label, ic.num_entries_bytes);
        info.label("theta:v4_used");
    } else {
        ensure!(cb == bytes, "C12.theta.compressed_fallback", "{}: serialize_compressed fell back to serVer {} but differs from serialize()", b.label, ic.ser_ver);
    }
    info.label(b.label.split(':').take(2).collect::<Vec<_>>().join(":"));
    info.nontrivial = want_sorted.len() > 1;
    Ok(())
}
