//! C12 - emitted bytes follow the DataSketches cross-language binary layout.

use super::{c08, c09, ser_hll, ser_misc, ser_theta, PropDef};
use crate::kit::runner::PropSub;

pub fn def() -> PropDef {
    PropDef {
        id: "C12",
        assumptions: vec![
            "the layouts are those transcribed from datasketches-java / -cpp in harness/src/spec (hll, theta v3/v4, cpc FM85, fi, tdigest) and props/c08.rs / c09.rs (Count-Min, Bloom); bytes documented as unused are not inspected",
            "CPC code tables are spec data snapshotted in /verif/spec/cpc_tables.json from the pinned tree (where the crate's own test ties them to upstream); the decoder derives its code books from the ENCODING tables and never reads /repo",
            "the expected abstract state comes from the harness's reference model of the same stream, never from the crate's own reader",
        ],
        subs: vec![
            Box::new(PropSub {
                name: "hll",
                rule: "C11's HLL generator; the image is decoded by the independent decoder the way a Java/C++ reader would (compact flag => aux pair list, otherwise aux table) and compared with the model: mode, lgK, type, flags (empty, out-of-order), counts, lgArr, coupons, registers incl. curMin and aux, numAtCurMin, auxCount, kxq, hipAccum. non-trivial = past list mode",
                cases_quick: 30_000,
                cases_thorough: 150_000,
                max_shrink_iters: 2000,
                limit_factor: 1,
                strategy: ser_hll::case_strategy,
                check: ser_hll::layout,
            }),
            Box::new(PropSub {
                name: "theta_compact",
                rule: "C11's theta generator; serialize() decoded as v3 (preLongs by state, flags, seed hash, theta, entries) and serialize_compressed() as v4 (entryBits minimal, numEntriesBytes, MSB-first delta stream) or its v3 fallback; compared with the known entry set. non-trivial = more than one entry",
                cases_quick: 200_000,
                cases_thorough: 600_000,
                max_shrink_iters: 2000,
                limit_factor: 1,
                strategy: ser_theta::case_strategy,
                check: ser_theta::layout,
            }),
            Box::new(PropSub {
                name: "cpc",
                rule: "C11's CPC generator; the image is decompressed by the independent FM85 decoder (preamble by flag combination, Huffman window by pseudo-phase, length-limited-unary / Golomb pairs, column rotation and permutation, inverted early zone) and the resulting k x 64 matrix compared with the model; numCoupons, seed hash, HIP flag, kxp, hipAccum, first interesting column. non-trivial = flavor >= Hybrid",
                cases_quick: 30_000,
                cases_thorough: 120_000,
                max_shrink_iters: 1000,
                limit_factor: 1,
                strategy: ser_misc::cpc_case,
                check: ser_misc::cpc_layout,
            }),
            Box::new(PropSub {
                name: "cpc_every_coupon_count",
                rule: "the image after EVERY coupon count: exact arrival-time streams at lg_k 4..=12 fed one coupon at a time up to C = 3.75 k .. 31 k (every flavor threshold, the first window moves, every pseudo-phase boundary), directly or through a union; decoded by the independent FM85 decoder and compared with the model matrix. non-trivial = reached the Pinned flavor",
                cases_quick: 48,
                cases_thorough: 1_000,
                max_shrink_iters: 30,
                limit_factor: 3,
                strategy: ser_misc::cpc_sweep_case,
                check: ser_misc::cpc_sweep_layout,
            }),
            Box::new(PropSub {
                name: "frequent_items",
                rule: "C11's Frequent Items generator; image decoded (preLongs 1 = 8-byte empty image, 4 otherwise; lgMax, lgCur, flags, activeItems, streamWeight, offset, counts, items as longs or length-prefixed UTF-8) and compared with the exact stream weight and the sketch's counters. non-trivial = purged",
                cases_quick: 60_000,
                cases_thorough: 150_000,
                max_shrink_iters: 2000,
                limit_factor: 1,
                strategy: ser_misc::fi_case,
                check: ser_misc::fi_layout,
            }),
            Box::new(PropSub {
                name: "tdigest",
                rule: "C11's t-digest generator; image decoded (preamble longs by state, k, flags empty / single value, min, max, centroid list) and compared with the exact count / min / max; weights positive and summing to the count, means ascending",
                cases_quick: 60_000,
                cases_thorough: 150_000,
                max_shrink_iters: 1000,
                limit_factor: 1,
                strategy: ser_misc::td_case,
                check: ser_misc::td_layout,
            }),
            Box::new(PropSub {
                name: "countmin",
                rule: "C08's generator; after every step the image is decoded independently (preamble, config, seed hash, empty flag, total, 8-byte LE cells) and compared cell by cell with the reference-hash model",
                cases_quick: 40_000,
                cases_thorough: 200_000,
                max_shrink_iters: 2000,
                limit_factor: 1,
                strategy: c08::case_strategy,
                check: ser_misc::cm_layout,
            }),
            Box::new(PropSub {
                name: "bloom",
                rule: "C09's generator; after every step the image is decoded independently (preLongs 3/4, flags, numHashes, seed, word count, bit count, words) and compared with the reference XXH64 bit-set model",
                cases_quick: 60_000,
                cases_thorough: 150_000,
                max_shrink_iters: 2000,
                limit_factor: 1,
                strategy: c09::case_strategy,
                check: ser_misc::bloom_layout,
            }),
        ],
        post: None,
    }
}
