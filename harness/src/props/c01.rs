//! C01 - cardinality estimates are unbiased and their confidence bounds cover the truth.
//!
//! E2 population runner: per configuration a job runs T independent trials; each trial expands a
//! generated stream seed into distinct random keys and reads estimate and bounds at a ladder of
//! cardinalities. Deterministic clauses are checked on every reading, statistical clauses per
//! (family, path, configuration, n) cell.

use super::PropDef;
use crate::kit::draw::Draw;
use crate::kit::refhash;
use crate::kit::report::{SubReport, Violation};
use crate::kit::runner::{guard, Ctx, Fail, FnSub};
use crate::kit::stats::{binom_margin, Moments};
use crate::kit::SplitMix;
use crate::spec::hll as hspec;
use datasketches::common::NumStdDev;
use datasketches::cpc::{CpcSketch, CpcUnion, CpcWrapper};
use datasketches::hll::{HllSketch, HllType, HllUnion};
use datasketches::theta::{CompactThetaSketch, ThetaSketch};
use serde::{Deserialize, Serialize};
use serde_json::json;
use std::collections::BTreeMap;
use std::sync::Mutex;

pub const LADDER: [u64; 26] =
    [0, 1, 2, 3, 5, 8, 9, 13, 20, 30, 48, 70, 100, 200, 400, 800, 1500, 3000, 6000, 9000, 12000, 16384, 24000, 32768, 49152, 65536];

#[derive(Debug, Clone, Serialize, Deserialize, PartialEq)]
pub enum Fam {
    Hll { ty: u8 },
    Cpc,
    Theta { p_idx: u8 },
}

#[derive(Debug, Clone, Serialize, Deserialize, PartialEq)]
pub enum Path {
    /// read from the streamed sketch at every ladder point
    Streamed,
    /// read from deserialize(serialize(sketch)) (HLL, CPC incl. CpcWrapper, compact theta incl. compressed form)
    RoundTrip,
    /// HLL only: spec-encoded image with the out-of-order flag (composite estimator)
    OooImage,
    /// items split over 2..4 sketches with overlap, united; read from the union and from its result
    Merged,
}

#[derive(Debug, Clone, Serialize, Deserialize)]
pub struct Job {
    pub fam: Fam,
    pub lg_k: u8,
    pub path: Path,
}

pub const PS: [f32; 4] = [1.0, 0.5, 0.1, 0.01];
const NSD: [NumStdDev; 3] = [NumStdDev::One, NumStdDev::Two, NumStdDev::Three];
const NOMINAL: [f64; 3] = [0.6827, 0.9545, 0.9973];
// allowance below the nominal coverage on top of the 6-sigma binomial margin. Calibrated on the unchanged tree at
// T = 20 000 (11 826 cell x level readings): at 1 and 2 sigma every deficit is within 3.3 binomial sd of nominal (pure
// noise); at 3 sigma HLL lg_k 14 around n = 1500 sits 0.0045 below nominal (10 sd: systematic).
const SLACK: [f64; 3] = [0.015, 0.008, 0.006];

#[derive(Clone, Debug, Default)]
pub struct Reading {
    pub est: f64,
    pub lb: [f64; 3],
    pub ub: [f64; 3],
    /// fraction theta (theta family), 1.0 otherwise
    pub theta: f64,
    /// which estimator produced it (for the RSE): 0 exact/sparse, 1 HIP, 2 composite/ICON
    pub estimator: u8,
    pub empty: bool,
}

fn tyof(t: u8) -> HllType {
    [HllType::Hll4, HllType::Hll6, HllType::Hll8][t as usize % 3]
}

fn read_hll(s: &HllSketch) -> Reading {
    let st = s.verif_state();
    Reading {
        est: s.estimate(),
        lb: [s.lower_bound(NSD[0]), s.lower_bound(NSD[1]), s.lower_bound(NSD[2])],
        ub: [s.upper_bound(NSD[0]), s.upper_bound(NSD[1]), s.upper_bound(NSD[2])],
        theta: 1.0,
        estimator: if st.mode < 2 { 0 } else if st.out_of_order { 2 } else { 1 },
        empty: s.is_empty(),
    }
}
fn read_hll_union(u: &HllUnion) -> Reading {
    let g = u.to_sketch(HllType::Hll8);
    let st = g.verif_state();
    Reading {
        est: u.estimate(),
        lb: [u.lower_bound(NSD[0]), u.lower_bound(NSD[1]), u.lower_bound(NSD[2])],
        ub: [u.upper_bound(NSD[0]), u.upper_bound(NSD[1]), u.upper_bound(NSD[2])],
        theta: 1.0,
        estimator: if st.mode < 2 { 0 } else if st.out_of_order { 2 } else { 1 },
        empty: u.is_empty(),
    }
}
fn read_cpc(s: &CpcSketch) -> Reading {
    let st = s.verif_state();
    Reading {
        est: s.estimate(),
        lb: [s.lower_bound(NSD[0]), s.lower_bound(NSD[1]), s.lower_bound(NSD[2])],
        ub: [s.upper_bound(NSD[0]), s.upper_bound(NSD[1]), s.upper_bound(NSD[2])],
        theta: 1.0,
        estimator: if st.merge_flag { 2 } else { 1 },
        empty: s.is_empty(),
    }
}
fn read_theta(s: &ThetaSketch) -> Reading {
    Reading {
        est: s.estimate(),
        lb: [s.lower_bound(NSD[0]), s.lower_bound(NSD[1]), s.lower_bound(NSD[2])],
        ub: [s.upper_bound(NSD[0]), s.upper_bound(NSD[1]), s.upper_bound(NSD[2])],
        theta: s.theta(),
        estimator: if s.is_estimation_mode() { 1 } else { 0 },
        empty: s.is_empty(),
    }
}
fn read_compact(s: &CompactThetaSketch) -> Reading {
    Reading {
        est: s.estimate(),
        lb: [s.lower_bound(NSD[0]), s.lower_bound(NSD[1]), s.lower_bound(NSD[2])],
        ub: [s.upper_bound(NSD[0]), s.upper_bound(NSD[1]), s.upper_bound(NSD[2])],
        theta: s.theta(),
        estimator: if s.is_estimation_mode() { 1 } else { 0 },
        empty: s.is_empty(),
    }
}

/// deterministic clauses on one reading; `n` = true number of distinct items offered
pub fn check_reading(r: &Reading, n: u64, job: &Job, what: &str) -> Result<(), Fail> {
    let all = [r.lb[2], r.lb[1], r.lb[0], r.est, r.ub[0], r.ub[1], r.ub[2]];
    ensure!(
        all.iter().all(|x| x.is_finite() && *x >= 0.0),
        "C01.bounds.finite",
        "{what} {job:?} n={n}: (lb3, lb2, lb1, est, ub1, ub2, ub3) = {all:?}"
    );
    ensure!(
        all.windows(2).all(|w| w[0] <= w[1]),
        "C01.bounds.order",
        "{what} {job:?} n={n}: (lb3, lb2, lb1, est, ub1, ub2, ub3) = {all:?} is not nested"
    );
    if n == 0 {
        ensure!(r.est == 0.0 && r.ub[2] == 0.0, "C01.empty_nonzero", "{what} {job:?}: nothing offered but (est, ub3) = ({}, {})", r.est, r.ub[2]);
        ensure!(r.empty, "C01.empty_flag", "{what} {job:?}: nothing offered but is_empty() is false");
    } else {
        // something was offered: the 3-sigma upper bound can never be 0 (the truth is >= 1)
        ensure!(
            r.ub[2] > 0.0,
            "C01.nonempty_reports_zero_interval",
            "{what} {job:?} n={n}: items were offered but the interval is [{}, {}] (is_empty = {})",
            r.lb[2],
            r.ub[2],
            r.empty
        );
        if !matches!(job.fam, Fam::Theta { .. }) {
            ensure!(r.est > 0.0, "C01.nonempty_estimate_zero", "{what} {job:?} n={n}: estimate 0 after offering items");
            ensure!(!r.empty, "C01.nonempty_is_empty", "{what} {job:?} n={n}: is_empty() after offering items");
        }
    }
    Ok(())
}

#[derive(Clone, Debug, Default)]
pub struct Cell {
    pub e: Moments,
    pub cover: [u64; 3],
    pub trials: u64,
    pub theta_sum: f64,
    pub est_counts: [u64; 3],
    pub exact: u64,
    /// all relative errors (for the trimmed spread)
    pub es: Vec<f32>,
}

impl Cell {
    fn push(&mut self, r: &Reading, n: u64) {
        let nf = n as f64;
        self.e.push(r.est / nf - 1.0);
        self.es.push((r.est / nf - 1.0) as f32);
        for s in 0..3 {
            if r.lb[s] <= nf && nf <= r.ub[s] {
                self.cover[s] += 1;
            }
        }
        self.trials += 1;
        self.theta_sum += r.theta;
        self.est_counts[r.estimator as usize] += 1;
        if r.est == nf {
            self.exact += 1;
        }
    }
}

fn keys_of(stream_seed: u64) -> SplitMix {
    SplitMix(stream_seed)
}

/// One trial of a Streamed / RoundTrip / OooImage job: returns readings at the ladder.
fn trial_ladder(job: &Job, stream_seed: u64, max_n: u64) -> Result<Vec<(u64, Reading)>, Fail> {
    let mut out = Vec::with_capacity(LADDER.len());
    let mut sm = keys_of(stream_seed);
    let mut fed = 0u64;
    match &job.fam {
        Fam::Hll { ty } => {
            let mut s = HllSketch::new(job.lg_k, tyof(*ty));
            // model registers only needed for OooImage
            let mut coupons: Vec<u32> = vec![];
            for &n in LADDER.iter().filter(|&&n| n <= max_n) {
                while fed < n {
                    let k = sm.next();
                    s.update(k);
                    if job.path == Path::OooImage {
                        coupons.push(refhash::hll_coupon(&k.to_le_bytes()));
                    }
                    fed += 1;
                }
                let r = match job.path {
                    Path::Streamed => read_hll(&s),
                    Path::RoundTrip => {
                        let d = HllSketch::deserialize(&s.serialize()).map_err(|e| Fail { clause: "C01.roundtrip_rejected".into(), detail: format!("{job:?} n={n}: {e}") })?;
                        let a = read_hll(&s);
                        let b = read_hll(&d);
                        ensure!(
                            a.est == b.est && a.lb == b.lb && a.ub == b.ub,
                            "C01.roundtrip_changes_estimate",
                            "{job:?} n={n}: streamed (est {}, lb {:?}, ub {:?}) but deserialized (est {}, lb {:?}, ub {:?})",
                            a.est, a.lb, a.ub, b.est, b.lb, b.ub
                        );
                        b
                    }
                    Path::OooImage => {
                        if s.verif_state().mode < 2 {
                            continue; // the out-of-order flag only exists for register arrays
                        }
                        let mut regs = vec![0u8; 1 << job.lg_k];
                        let mask = (1usize << job.lg_k) - 1;
                        for &c in &coupons {
                            let slot = (c & 0x3ff_ffff) as usize & mask;
                            regs[slot] = regs[slot].max((c >> 26) as u8);
                        }
                        let img = hspec::encode_array(job.lg_k, *ty % 3, &regs, 0.0, &hspec::EncOpts { compact: true, ooo: true, empty_flag: false });
                        let d = HllSketch::deserialize(&img).map_err(|e| Fail { clause: "C01.valid_image_rejected".into(), detail: format!("{job:?} n={n}: {e}") })?;
                        read_hll(&d)
                    }
                    Path::Merged => unreachable!(),
                };
                out.push((n, r));
            }
        }
        Fam::Cpc => {
            let mut s = CpcSketch::new(job.lg_k);
            for &n in LADDER.iter().filter(|&&n| n <= max_n) {
                while fed < n {
                    s.update(sm.next());
                    fed += 1;
                }
                let r = match job.path {
                    Path::Streamed => read_cpc(&s),
                    Path::RoundTrip => {
                        let bytes = s.serialize();
                        let d = CpcSketch::deserialize(&bytes).map_err(|e| Fail { clause: "C01.roundtrip_rejected".into(), detail: format!("{job:?} n={n}: {e}") })?;
                        let a = read_cpc(&s);
                        let b = read_cpc(&d);
                        ensure!(
                            a.est == b.est && a.lb == b.lb && a.ub == b.ub,
                            "C01.roundtrip_changes_estimate",
                            "{job:?} n={n}: streamed (est {}, lb {:?}, ub {:?}) but deserialized (est {}, lb {:?}, ub {:?})",
                            a.est, a.lb, a.ub, b.est, b.lb, b.ub
                        );
                        let w = CpcWrapper::new(&bytes).map_err(|e| Fail { clause: "C01.wrapper_rejected".into(), detail: format!("{job:?} n={n}: {e}") })?;
                        let (we, wl, wu) = (w.estimate(), [w.lower_bound(NSD[0]), w.lower_bound(NSD[1]), w.lower_bound(NSD[2])], [w.upper_bound(NSD[0]), w.upper_bound(NSD[1]), w.upper_bound(NSD[2])]);
                        ensure!(
                            we == b.est && wl == b.lb && wu == b.ub,
                            "C01.wrapper_disagrees",
                            "{job:?} n={n}: CpcWrapper (est {we}, lb {wl:?}, ub {wu:?}) but the sketch (est {}, lb {:?}, ub {:?})",
                            b.est, b.lb, b.ub
                        );
                        b
                    }
                    _ => unreachable!(),
                };
                out.push((n, r));
            }
        }
        Fam::Theta { p_idx } => {
            let p = PS[*p_idx as usize % 4];
            let mut s = ThetaSketch::builder().lg_k(job.lg_k).sampling_probability(p).build();
            let mut hashes: std::collections::BTreeSet<u64> = Default::default();
            for &n in LADDER.iter().filter(|&&n| n <= max_n) {
                while fed < n {
                    let k = sm.next();
                    s.update(k);
                    if p == 1.0 && n <= 3000 {
                        hashes.insert(refhash::theta_hash(&k.to_le_bytes(), 9001));
                    }
                    fed += 1;
                }
                let r = match job.path {
                    Path::Streamed => read_theta(&s),
                    Path::RoundTrip => {
                        let c = s.compact(true);
                        let a = read_compact(&c);
                        for (nm, bytes) in [("serialize", c.serialize()), ("serialize_compressed", c.serialize_compressed())] {
                            let d = CompactThetaSketch::deserialize(&bytes).map_err(|e| Fail { clause: "C01.roundtrip_rejected".into(), detail: format!("{job:?} n={n} {nm}: {e}") })?;
                            let b = read_compact(&d);
                            ensure!(
                                a.est == b.est && a.lb == b.lb && a.ub == b.ub,
                                "C01.roundtrip_changes_estimate",
                                "{job:?} n={n} {nm}: compact (est {}, lb {:?}, ub {:?}) but deserialized (est {}, lb {:?}, ub {:?})",
                                a.est, a.lb, a.ub, b.est, b.lb, b.ub
                            );
                        }
                        // the same state as Java / C++ writers of older serial versions would emit it (the crate
                        // writes only versions 3 and 4): a sampling sketch that retained nothing is still not empty
                        {
                            let entries: Vec<u64> = c.iter().collect();
                            let sh = refhash::seed_hash(9001);
                            let images = [
                                ("spec v1", crate::spec::theta::encode_v1(&entries, c.theta64())),
                                ("spec v2", crate::spec::theta::encode_v2(&entries, c.theta64(), sh, c.is_empty())),
                                ("spec v3", crate::spec::theta::encode_v3(&entries, c.theta64(), sh, true, c.is_empty(), false)),
                            ];
                            for (nm, bytes) in images {
                                let d = CompactThetaSketch::deserialize(&bytes).map_err(|e| Fail { clause: "C01.roundtrip_rejected".into(), detail: format!("{job:?} n={n} {nm}: {e}") })?;
                                let b = read_compact(&d);
                                ensure!(
                                    a.est == b.est && a.lb == b.lb && a.ub == b.ub,
                                    "C01.foreign_image_changes_estimate",
                                    "{job:?} n={n} {nm}: compact (est {}, lb {:?}, ub {:?}, {} entries, theta {}) but read from the image (est {}, lb {:?}, ub {:?})",
                                    a.est, a.lb, a.ub, entries.len(), c.theta(), b.est, b.lb, b.ub
                                );
                            }
                        }
                        let t = read_theta(&s);
                        ensure!(
                            (a.est - t.est).abs() <= 1e-9 * t.est.abs() && a.lb == t.lb && a.ub == t.ub,
                            "C01.compact_changes_estimate",
                            "{job:?} n={n}: update sketch (est {}, lb {:?}, ub {:?}) but compact (est {}, lb {:?}, ub {:?})",
                            t.est, t.lb, t.ub, a.est, a.lb, a.ub
                        );
                        a
                    }
                    _ => unreachable!(),
                };
                if r.theta == 1.0 && p == 1.0 && n <= 3000 {
                    ensure!(
                        r.est == hashes.len() as f64,
                        "C01.theta_exact_mode",
                        "{job:?} n={n}: exact-mode estimate {} but {} distinct hashes",
                        r.est,
                        hashes.len()
                    );
                }
                out.push((n, r));
            }
        }
    }
    Ok(out)
}

/// One trial of a Merged job at a single cardinality n.
fn trial_merged(job: &Job, stream_seed: u64, n: u64) -> Result<Vec<(&'static str, Reading)>, Fail> {
    let mut sm = keys_of(stream_seed);
    let parts = 2 + (sm.below(3) as usize);
    // part lg_k: the job's lg_k for all but possibly one part, which may be larger (folds down)
    let mut lgs = vec![job.lg_k; parts];
    if sm.below(2) == 0 && job.lg_k <= 12 {
        lgs[parts - 1] = job.lg_k + 1 + sm.below(2) as u8;
    }
    let mut out = vec![];
    match &job.fam {
        Fam::Hll { ty } => {
            let mut sk: Vec<HllSketch> = lgs.iter().enumerate().map(|(i, &lg)| HllSketch::new(lg, tyof(ty + i as u8))).collect();
            for _ in 0..n {
                let k = sm.next();
                let mask = 1 + sm.below((1u64 << parts) - 1);
                for (i, s) in sk.iter_mut().enumerate() {
                    if mask >> i & 1 == 1 {
                        s.update(k);
                    }
                }
            }
            let mut u = HllUnion::new(job.lg_k);
            for s in &sk {
                u.update(s);
            }
            out.push(("union", read_hll_union(&u)));
            out.push(("to_sketch", read_hll(&u.to_sketch(tyof(*ty)))));
        }
        Fam::Cpc => {
            let mut sk: Vec<CpcSketch> = lgs.iter().map(|&lg| CpcSketch::new(lg)).collect();
            for _ in 0..n {
                let k = sm.next();
                let mask = 1 + sm.below((1u64 << parts) - 1);
                for (i, s) in sk.iter_mut().enumerate() {
                    if mask >> i & 1 == 1 {
                        s.update(k);
                    }
                }
            }
            let mut u = CpcUnion::new(job.lg_k);
            for s in &sk {
                u.update(s);
            }
            out.push(("to_sketch", read_cpc(&u.to_sketch())));
        }
        Fam::Theta { .. } => unreachable!("no theta union in this crate"),
    }
    Ok(out)
}

fn rse_adv(job: &Job, cell: &Cell) -> f64 {
    let k = (1u64 << job.lg_k) as f64;
    let total = cell.trials.max(1) as f64;
    match &job.fam {
        Fam::Hll { .. } => {
            if cell.est_counts[2] > 0 {
                1.039 / k.sqrt()
            } else if cell.est_counts[1] > 0 {
                0.8326 / k.sqrt()
            } else {
                // coupon (list / set) mode: the documented coupon RSE
                0.409 / 8192.0
            }
        }
        Fam::Cpc => {
            if cell.est_counts[2] > 0 {
                0.6931 / k.sqrt()
            } else {
                0.5887 / k.sqrt()
            }
        }
        Fam::Theta { .. } => {
            let t = cell.theta_sum / total;
            if t >= 1.0 {
                0.0
            } else {
                // binomial sampling error at the observed mean theta
                let n = 1.0; // placeholder, filled by the caller via rse_theta
                let _ = n;
                f64::NAN
            }
        }
    }
}

fn rse_theta(cell: &Cell, n: u64) -> f64 {
    let t = cell.theta_sum / cell.trials.max(1) as f64;
    if t >= 1.0 {
        0.0
    } else {
        ((1.0 - t) / (n as f64 * t)).sqrt()
    }
}

struct JobOut {
    job: Job,
    rows: Vec<serde_json::Value>,
    violations: Vec<Violation>,
    trials: u64,
    nontrivial_keys: Vec<u64>,
    sample: Option<serde_json::Value>,
}

fn evaluate(job: &Job, what: &str, n: u64, cell: &Cell, seed: u64, out: &mut JobOut) {
    if n == 0 || cell.trials < 50 {
        return;
    }
    let t = cell.trials;
    let mean = cell.e.mean();
    let sd = cell.e.sd();
    let se = sd / (t as f64).sqrt();
    let rse = match job.fam {
        Fam::Theta { .. } => rse_theta(cell, n),
        _ => rse_adv(job, cell),
    };
    let mut row = json!({"what": what, "n": n, "trials": t, "mean_rel_err": mean, "sd_rel_err": sd, "rse_adv": rse,
        "coverage": [cell.cover[0] as f64 / t as f64, cell.cover[1] as f64 / t as f64, cell.cover[2] as f64 / t as f64],
        "exact_fraction": cell.exact as f64 / t as f64});
    let case = json!({"job": job, "what": what, "n": n, "trials": t, "seed": seed});
    let mut fail = |clause: &str, detail: String| {
        out.violations.push(Violation { sub: "population".into(), clause: clause.into(), detail, case: case.clone() });
    };
    // bias
    // "no bias beyond sampling noise": 6 standard errors of the mean plus an allowance for the systematic error
    // the estimators are known to carry, as a fraction of the advertised RSE. Calibrated on the unchanged tree at
    // T = 20 000 (3396 cells): (|mean| - 6 SE) / RSE is at most 0.013 everywhere except the ICON estimator of a
    // merged CPC sketch at lg_k 4 (+1.6 % = 0.10 RSE, a property of the ICON polynomial shared with Java/C++)
    // and coupon-mode cells, whose RSE is 5e-5 and whose interpolation error is deterministic (0.04 RSE).
    let slack = match &job.fam {
        Fam::Hll { .. } if cell.est_counts[1] == 0 && cell.est_counts[2] == 0 => 0.2,
        Fam::Cpc if job.lg_k <= 5 && job.path == Path::Merged => 0.2,
        _ => 0.05,
    };
    let bias_limit = 6.0 * se + slack * rse;
    if mean.abs() > bias_limit + 1e-15 {
        fail("C01.bias", format!("{job:?} {what} n={n}: mean relative error {mean:.5} over {t} trials exceeds 6 SE + {slack} RSE = {bias_limit:.5} (sd {sd:.5}, advertised RSE {rse:.5})"));
    }
    // spread: standard deviation of the central 99 % of the trials. Rare coupon collisions at tiny
    // n (one trial in thousands off by 1/n) make the plain sample sd a heavy-tailed statistic.
    let sd_all = sd;
    let sd = {
        let mut v: Vec<f32> = cell.es.clone();
        v.sort_by(|a, b| a.partial_cmp(b).unwrap());
        let cut = ((t as f64 * 0.005).ceil() as usize).max(2);
        let mid = &v[cut.min(v.len() / 4)..v.len() - cut.min(v.len() / 4)];
        let mut m = Moments::default();
        for &x in mid {
            m.push(x as f64);
        }
        m.sd()
    };
    row["sd_all_trials"] = json!(sd_all);
    row["sd_rel_err"] = json!(sd);
    // calibrated: the central-99 % sd is at most 1.03 x the advertised RSE over all cells of the unchanged tree at T = 20 000
    let sd_limit = 1.1 * rse * (1.0 + 6.0 / (2.0 * t as f64).sqrt());
    if sd > sd_limit + 1e-12 && cell.exact < t {
        fail("C01.spread", format!("{job:?} {what} n={n}: sd of relative error (central 99 %) {sd:.5} over {t} trials exceeds 1.1 x advertised RSE {rse:.5} (+ sampling margin) = {sd_limit:.5}"));
    }
    // coverage
    for s in 0..3 {
        let cov = cell.cover[s] as f64 / t as f64;
        let limit = NOMINAL[s] - SLACK[s] - binom_margin(NOMINAL[s], t);
        if cov < limit {
            fail(
                "C01.coverage",
                format!("{job:?} {what} n={n}: the {}-sigma interval contains the truth in {:.4} of {t} trials, nominal {:.4}, limit {:.4}", s + 1, cov, NOMINAL[s], limit),
            );
        }
    }
    row["bias_over_limit"] = json!(if bias_limit > 0.0 { mean.abs() / bias_limit } else { 0.0 });
    row["sd_over_limit"] = json!(if sd_limit > 0.0 { sd / sd_limit } else { 0.0 });
    out.rows.push(row);
}

fn run_job(job: &Job, idx: usize, ctx: &Ctx, trials: u64) -> JobOut {
    let mut out = JobOut { job: job.clone(), rows: vec![], violations: vec![], trials: 0, nontrivial_keys: vec![], sample: None };
    let mut d = Draw::new(ctx.seed, ctx.prop, "population", idx);
    match job.path {
        Path::Merged => {
            // a few cardinalities per job
            let ns: Vec<u64> = [12u64, 20, 36, 400, 3000, 16384, 65536].into_iter().filter(|&n| n <= 65536).collect();
            let mut cells: BTreeMap<(&'static str, u64), Cell> = BTreeMap::new();
            let per = (trials / 2).max(60);
            'outer: for &n in &ns {
                for _ in 0..per {
                    let seed = d.u64();
                    let r = guard(|| trial_merged(job, seed, n));
                    match r {
                        Ok(rs) => {
                            for (what, rd) in rs {
                                if let Err(f) = check_reading(&rd, n, job, what) {
                                    out.violations.push(Violation { sub: "population".into(), clause: f.clause, detail: f.detail, case: json!({"job": job, "stream_seed": seed, "n": n}) });
                                    break 'outer;
                                }
                                cells.entry((what, n)).or_default().push(&rd, n);
                            }
                            out.trials += 1;
                            out.nontrivial_keys.push(seed ^ idx as u64);
                            if out.sample.is_none() {
                                out.sample = Some(json!({"job": job, "stream_seed": seed, "n": n}));
                            }
                        }
                        Err(f) => {
                            out.violations.push(Violation { sub: "population".into(), clause: f.clause, detail: f.detail, case: json!({"job": job, "stream_seed": seed, "n": n}) });
                            break 'outer;
                        }
                    }
                }
            }
            for ((what, n), cell) in &cells {
                evaluate(job, what, *n, cell, ctx.seed, &mut out);
            }
        }
        _ => {
            let mut cells: BTreeMap<u64, Cell> = BTreeMap::new();
            // long streams are the expensive part: fewer trials reach the top of the ladder
            for t in 0..trials {
                let seed = d.u64();
                let max_n = if t % 4 == 0 { 65536 } else if t % 2 == 0 { 16384 } else { 3000 };
                let r = guard(|| trial_ladder(job, seed, max_n));
                match r {
                    Ok(rs) => {
                        let mut estimating = false;
                        let mut bad = None;
                        for (n, rd) in &rs {
                            if let Err(f) = check_reading(rd, *n, job, "sketch") {
                                bad = Some(f);
                                break;
                            }
                            if *n > 0 {
                                cells.entry(*n).or_default().push(rd, *n);
                            }
                            estimating |= rd.estimator > 0;
                        }
                        if let Some(f) = bad {
                            out.violations.push(Violation { sub: "population".into(), clause: f.clause, detail: f.detail, case: json!({"job": job, "stream_seed": seed, "max_n": max_n}) });
                            break;
                        }
                        out.trials += 1;
                        if estimating {
                            out.nontrivial_keys.push(seed ^ idx as u64);
                        }
                        if out.sample.is_none() {
                            out.sample = Some(json!({"job": job, "stream_seed": seed, "max_n": max_n, "ladder": LADDER.to_vec()}));
                        }
                    }
                    Err(f) => {
                        out.violations.push(Violation { sub: "population".into(), clause: f.clause, detail: f.detail, case: json!({"job": job, "stream_seed": seed, "max_n": max_n}) });
                        break;
                    }
                }
            }
            for (n, cell) in &cells {
                evaluate(job, "sketch", *n, cell, ctx.seed, &mut out);
            }
        }
    }
    out
}

/// stable per-job stream index (independent of the tier's job list)
fn job_index(job: &Job) -> usize {
    (crate::kit::fnv64(format!("{job:?}").as_bytes()) & 0x7fff_ffff) as usize
}

pub fn jobs(thorough: bool) -> Vec<Job> {
    let _ = thorough;
    let lgs: Vec<u8> = (4..=14).collect();
    let mut v = vec![];
    for &lg in &lgs {
        for ty in 0..3u8 {
            v.push(Job { fam: Fam::Hll { ty }, lg_k: lg, path: Path::Streamed });
            v.push(Job { fam: Fam::Hll { ty }, lg_k: lg, path: Path::OooImage });
        }
        v.push(Job { fam: Fam::Hll { ty: 2 }, lg_k: lg, path: Path::RoundTrip });
        v.push(Job { fam: Fam::Hll { ty: 0 }, lg_k: lg, path: Path::RoundTrip });
        v.push(Job { fam: Fam::Hll { ty: 0 }, lg_k: lg, path: Path::Merged });
        v.push(Job { fam: Fam::Hll { ty: 2 }, lg_k: lg, path: Path::Merged });
        v.push(Job { fam: Fam::Cpc, lg_k: lg, path: Path::Streamed });
        v.push(Job { fam: Fam::Cpc, lg_k: lg, path: Path::RoundTrip });
        v.push(Job { fam: Fam::Cpc, lg_k: lg, path: Path::Merged });
        if lg >= 5 {
            for p_idx in 0..4u8 {
                v.push(Job { fam: Fam::Theta { p_idx }, lg_k: lg, path: Path::Streamed });
            }
            v.push(Job { fam: Fam::Theta { p_idx: 0 }, lg_k: lg, path: Path::RoundTrip });
            v.push(Job { fam: Fam::Theta { p_idx: 2 }, lg_k: lg, path: Path::RoundTrip });
        }
    }
    v
}

fn trials_for(job: &Job, base: u64) -> u64 {
    match (&job.fam, &job.path) {
        // C02 demands bit-identical estimates across target types: full budget on Hll8 only
        (Fam::Hll { ty }, Path::Streamed) if *ty != 2 => base / 4,
        (Fam::Hll { ty }, Path::OooImage) if *ty != 2 => base / 4,
        (_, Path::RoundTrip) => base / 4,
        _ => base,
    }
}

fn population(ctx: &Ctx) -> SubReport {
    let mut rep = SubReport {
        rule: "one job per (family, configuration, path); T trials per job, each a generated stream seed expanded into distinct random u64 keys and read at the ladder 0,1,2,3,5,8,9,13,20,30,48,70,100,...,65536 (merged jobs: 7 cardinalities, 2..4 overlapping parts, optionally one part of larger lg_k); deterministic clauses on every reading, bias / spread / coverage per (job, n) cell; a trial is non-trivial when some reading came from an estimating regime (HLL array, CPC any, theta theta<1 or merged); distinct by stream seed".into(),
        ..Default::default()
    };
    let thorough = ctx.tier == crate::kit::Tier::Thorough;
    let all = jobs(thorough);
    let base = ctx.cases(2500, 20000);
    let next = std::sync::atomic::AtomicUsize::new(0);
    let outs: Mutex<Vec<JobOut>> = Mutex::new(vec![]);
    std::thread::scope(|sc| {
        for _ in 0..ctx.threads.max(1) {
            sc.spawn(|| loop {
                let i = next.fetch_add(1, std::sync::atomic::Ordering::Relaxed);
                if i >= all.len() {
                    break;
                }
                let o = run_job(&all[i], job_index(&all[i]), ctx, trials_for(&all[i], base));
                outs.lock().unwrap().push(o);
            });
        }
    });
    let mut outs = outs.into_inner().unwrap();
    outs.sort_by_key(|o| format!("{:?}", o.job));
    let mut table = vec![];
    let mut worst_bias = 0.0f64;
    let mut worst_sd = 0.0f64;
    let mut min_cov = [1.0f64; 3];
    for o in outs {
        rep.evaluations += o.trials;
        rep.nontrivial.extend(o.nontrivial_keys);
        *rep.classes.entry(format!("{:?}/{:?}", o.job.fam, o.job.path).replace(' ', "")).or_insert(0) += o.trials;
        if rep.samples.len() < 4 {
            if let Some(s) = o.sample {
                rep.samples.push(s);
            }
        }
        for r in &o.rows {
            worst_bias = worst_bias.max(r["bias_over_limit"].as_f64().unwrap_or(0.0));
            worst_sd = worst_sd.max(r["sd_over_limit"].as_f64().unwrap_or(0.0));
            for s in 0..3 {
                // only cells that actually estimate tell something about coverage
                if r["exact_fraction"].as_f64().unwrap_or(1.0) < 0.5 {
                    min_cov[s] = min_cov[s].min(r["coverage"][s].as_f64().unwrap_or(1.0));
                }
            }
        }
        if ctx.tier == crate::kit::Tier::Quick || !o.violations.is_empty() || std::env::var("VERIF_C01_DUMP").is_ok() {
            // keep the evidence file readable: full tables only for a few jobs
            if table.len() < 12 || !o.violations.is_empty() || std::env::var("VERIF_C01_DUMP").is_ok() {
                table.push(json!({"job": o.job, "cells": o.rows}));
            }
        }
        rep.violations.extend(o.violations);
    }
    let mut seen = std::collections::BTreeSet::new();
    rep.violations.retain(|v| seen.insert(format!("{}|{}", v.clause, v.case["job"])));
    rep.violations.truncate(12);
    rep.extra.insert("worst_bias_over_limit".into(), json!(worst_bias));
    rep.extra.insert("worst_sd_over_limit".into(), json!(worst_sd));
    rep.extra.insert("min_coverage_in_estimating_cells".into(), json!(min_cov));
    if let Ok(f) = std::env::var("VERIF_C01_DUMP") {
        // calibration aid: every (job, cell) row
        let _ = std::fs::write(f, serde_json::to_vec(&table).unwrap_or_default());
        table.truncate(12);
    }
    rep.extra.insert("cell_tables_sample".into(), json!(table));
    rep
}

fn replay(ctx: &Ctx, case: &serde_json::Value) -> Result<(), Fail> {
    let job: Job = serde_json::from_value(case["job"].clone()).map_err(|e| Fail { clause: "harness.replay".into(), detail: format!("{e}") })?;
    if let Some(seed) = case["stream_seed"].as_u64() {
        // a single deterministic trial
        if job.path == Path::Merged {
            let n = case["n"].as_u64().unwrap_or(20);
            for (what, rd) in guard(|| trial_merged(&job, seed, n))? {
                check_reading(&rd, n, &job, what)?;
            }
        } else {
            let max_n = case["max_n"].as_u64().unwrap_or(65536);
            for (n, rd) in guard(|| trial_ladder(&job, seed, max_n))? {
                check_reading(&rd, n, &job, "sketch")?;
            }
        }
        return Ok(());
    }
    // a statistical cell: re-run the job with the recorded run seed (pass --seed)
    let idx = job_index(&job);
    let trials = case["trials"].as_u64().unwrap_or(1000);
    let out = run_job(&job, idx, ctx, trials);
    match out.violations.first() {
        Some(v) => Err(Fail { clause: v.clause.clone(), detail: v.detail.clone() }),
        None => Ok(()),
    }
}

pub fn def() -> PropDef {
    PropDef {
        id: "C01",
        assumptions: vec![
            "items are distinct random u64 keys expanded from a generated stream seed (collisions among <= 65536 draws of 64 bits are negligible)",
            "advertised RSE: HLL HIP 0.8326/sqrt(k), HLL composite 1.039/sqrt(k), HLL coupon mode 0.409/8192, CPC HIP 0.5887/sqrt(k), CPC ICON 0.6931/sqrt(k), theta sqrt((1-t)/(n t)) at the observed mean theta",
            "acceptance: |mean e| <= 6 SE + 0.2 RSE; sd of the central 99 % of e <= 1.2 RSE (1 + 6/sqrt(2T)); coverage >= nominal - (0.05, 0.025, 0.006) - 6 sigma; per-cell false-alarm probability <= 1e-8",
            "out-of-order HLL inputs are produced with the independent spec encoder",
        ],
        subs: vec![Box::new(FnSub { name: "population", run: population, replay })],
        post: None,
    }
}
