//! vcheck library: shared by the `vcheck` binary and the libFuzzer targets in /verif/fuzz.

#[macro_use]
pub mod kit;
pub mod model;
pub mod props;
pub mod spec;

pub fn verif_root() -> String {
    std::env::var("VERIF_ROOT").unwrap_or_else(|_| "/verif".to_string())
}
