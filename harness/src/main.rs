//! vcheck: property-based checks for apache/datasketches-rust (see /verif/DESIGN.md).

use vcheck::{kit, props, verif_root};

use kit::report::{Report, Tier, Violation};
use kit::runner::Ctx;
use std::time::Instant;

#[global_allocator]
static GLOBAL: kit::alloc::CapAlloc = kit::alloc::CapAlloc;


fn usage() -> ! {
    eprintln!("usage: vcheck <Cxx> [quick|thorough] [--seed N] [--replay FILE] [--only SUB] [--partial-out FILE]");
    std::process::exit(2);
}

fn main() {
    let args: Vec<String> = std::env::args().skip(1).collect();
    if args.is_empty() {
        usage();
    }
    if args[0] == "--worker" {
        props::c14::worker_main();
    }
    if args[0] == "--dump-seeds" {
        // seed corpus for the libFuzzer target: the C14 seed images, one file each
        let dir = args.get(1).cloned().unwrap_or_else(|| usage());
        std::fs::create_dir_all(&dir).expect("create seed dir");
        let seeds = props::c14::seeds();
        for (i, (name, img)) in seeds.iter().enumerate() {
            let clean: String = name.chars().map(|c| if c.is_ascii_alphanumeric() { c } else { '_' }).take(60).collect();
            std::fs::write(format!("{dir}/seed-{i:04}-{clean}"), img).expect("write seed");
        }
        println!("{} seed images written to {dir}", seeds.len());
        std::process::exit(0);
    }
    let prop_id = args[0].clone();
    let mut tier = match std::env::var("VERIF_TIER").ok().as_deref() {
        Some("thorough") => Tier::Thorough,
        _ => Tier::Quick,
    };
    let mut seed: u64 = std::env::var("VERIF_SEED").ok().and_then(|s| s.parse().ok()).unwrap_or(0);
    let mut replay: Option<String> = None;
    let mut only: Option<String> = None;
    let mut partial_out: Option<String> = None;
    let mut i = 1;
    while i < args.len() {
        match args[i].as_str() {
            "quick" | "--quick" => tier = Tier::Quick,
            "thorough" | "--thorough" => tier = Tier::Thorough,
            "--tier" => {
                i += 1;
                tier = if args.get(i).map(|s| s.as_str()) == Some("thorough") { Tier::Thorough } else { Tier::Quick };
            }
            "--seed" => {
                i += 1;
                seed = args.get(i).and_then(|s| s.parse().ok()).unwrap_or_else(|| usage());
            }
            "--replay" => {
                i += 1;
                replay = Some(args.get(i).cloned().unwrap_or_else(|| usage()));
            }
            "--only" => {
                i += 1;
                only = Some(args.get(i).cloned().unwrap_or_else(|| usage()));
            }
            "--partial-out" => {
                i += 1;
                partial_out = Some(args.get(i).cloned().unwrap_or_else(|| usage()));
            }
            _ => usage(),
        }
        i += 1;
    }

    // a replay runs in the tier the case was found in (some clauses only exist in the thorough tier)
    if let Some(path) = &replay {
        if let Ok(txt) = std::fs::read_to_string(path) {
            if let Ok(v) = serde_json::from_str::<serde_json::Value>(&txt) {
                if v["tier"].as_str() == Some("thorough") {
                    tier = Tier::Thorough;
                }
            }
        }
    }
    // strategies are built without a context: tier-dependent generator bounds read this
    std::env::set_var("VERIF_TIER_HINT", tier.as_str());
    kit::refhash::self_test();
    kit::runner::install_panic_hook();

    // Whole-process watchdog: a hang is an infrastructure outcome (exit 2), never a violation.
    {
        let limit: u64 = std::env::var("VERIF_WATCHDOG_S").ok().and_then(|s| s.parse().ok()).unwrap_or(match tier {
            Tier::Quick => 1500,
            Tier::Thorough => 6 * 3600,
        });
        let what = format!("{prop_id} {}", tier.as_str());
        std::thread::spawn(move || {
            std::thread::sleep(std::time::Duration::from_secs(limit));
            eprintln!("INCONCLUSIVE: watchdog: {what} still running after {limit} s (a generated case may not terminate); no verdict");
            std::process::exit(2);
        });
    }

    // Per-case monitor: a generated case that runs for longer than the per-case limit (orders of magnitude above
    // the cost of any case the generators produce) is replayed in an isolated process under the same limit; only
    // if it fails to finish there too is it reported as a violation (clause `nontermination`).
    if replay.is_none() {
        let limit = case_limit(tier);
        let prop_id = prop_id.clone();
        let partial_out = partial_out.clone();
        std::thread::spawn(move || loop {
            std::thread::sleep(std::time::Duration::from_secs(5));
            if let Some((sub, case, secs, applied)) = kit::runner::overdue_case(limit) {
                on_overdue(&prop_id, tier, seed, &sub, case, secs, applied, partial_out.as_deref());
            }
        });
    }

    let def = match props::get(&prop_id) {
        Some(d) => d,
        None => {
            eprintln!("unknown property {prop_id}");
            std::process::exit(2);
        }
    };
    let threads = std::env::var("VERIF_THREADS")
        .ok()
        .and_then(|s| s.parse().ok())
        .unwrap_or_else(|| std::thread::available_parallelism().map(|n| n.get()).unwrap_or(8));
    let scale: f64 = std::env::var("VERIF_SCALE").ok().and_then(|s| s.parse().ok()).unwrap_or(1.0);
    // quick tiers are fixed work of roughly 30-80 s each on 16 cores: the cheap properties run several times
    // the case counts written in their definitions
    let scale = scale
        * match (tier, prop_id.as_str()) {
            (Tier::Quick, "C03" | "C05" | "C08" | "C13") => 4.0,
            (Tier::Quick, "C09" | "C10") => 6.0,
            (Tier::Quick, "C06" | "C16" | "C15") => 3.0,
            _ => 1.0,
        };
    let ctx = Ctx {
        prop: def.id,
        tier,
        seed,
        threads,
        known: kit::findings::known_for(def.id),
        scale,
        profile: if cfg!(debug_assertions) { "dbg" } else { "release" },
    };

    if let Some(path) = replay {
        do_replay(&ctx, &def, &path);
    }

    let t0 = Instant::now();
    let mut report = Report::default();
    for sub in &def.subs {
        if let Some(o) = &only {
            if sub.name() != o {
                continue;
            }
        }
        let r = sub.run(&ctx);
        eprintln!(
            "[{} {} {}] {}: {} cases, {} distinct non-trivial, {} violations, {:.1}s",
            def.id,
            tier.as_str(),
            ctx.profile,
            r.name,
            r.evaluations,
            r.nontrivial.len(),
            r.violations.len(),
            r.wall_s
        );
        report.subs.push(r);
    }

    if let Some(p) = partial_out {
        // child mode (e.g. dbg profile run for C17): hand the report to the parent
        std::fs::write(&p, serde_json::to_vec(&report).unwrap()).expect("write partial report");
        std::process::exit(0);
    }

    if let Some(extra) = def.post {
        extra(&ctx, &mut report);
    }
    finish(&ctx, &def, report, t0.elapsed().as_secs_f64());
}

fn case_limit(tier: Tier) -> std::time::Duration {
    let s: u64 = std::env::var("VERIF_CASE_LIMIT_S").ok().and_then(|s| s.parse().ok()).unwrap_or(match tier {
        Tier::Quick => 120,
        Tier::Thorough => 900,
    });
    std::time::Duration::from_secs(if cfg!(debug_assertions) { 2 * s } else { s })
}

fn make_ctx(def: &props::PropDef, tier: Tier, seed: u64) -> Ctx {
    Ctx {
        prop: def.id,
        tier,
        seed,
        threads: 1,
        known: kit::findings::known_for(def.id),
        scale: 1.0,
        profile: if cfg!(debug_assertions) { "dbg" } else { "release" },
    }
}

/// A case exceeded the per-case limit: confirm in an isolated process, then report (never returns if confirmed
/// or refuted; returns only if the confirmation could not be started).
#[allow(clippy::too_many_arguments)]
fn on_overdue(prop_id: &str, tier: Tier, seed: u64, sub: &str, case: serde_json::Value, secs: f64, limit: std::time::Duration, partial_out: Option<&str>) -> ! {
    let root = verif_root();
    let def = props::get(prop_id).expect("property");
    let ctx = make_ctx(&def, tier, seed);
    let detail = format!("a generated case was still running after {secs:.0} s (per-case limit {} s; cases of this sub-check normally take milliseconds to seconds)", limit.as_secs());
    let body = serde_json::json!({"property": prop_id, "sub": sub, "clause": "nontermination", "detail": detail, "seed": seed, "tier": tier.as_str(), "case": case});
    let bytes = serde_json::to_vec_pretty(&body).unwrap();
    let _ = std::fs::create_dir_all(format!("{root}/replays"));
    let path = format!("{root}/replays/{}-hang-{:016x}.json", prop_id, kit::fnv64(&bytes));
    let _ = std::fs::write(&path, &bytes);
    eprintln!("[{prop_id}] a case of sub-check {sub} exceeded the per-case limit; confirming in an isolated process ({path})");
    let me = std::env::current_exe().expect("current_exe");
    let out = std::process::Command::new(&me)
        .arg(prop_id)
        .arg(tier.as_str())
        .arg("--replay")
        .arg(&path)
        .env("VERIF_REPLAY_CHILD", "1")
        .env("VERIF_CASE_LIMIT_S", limit.as_secs().to_string())
        .output();
    let (code, text) = match out {
        Ok(o) => (o.status.code().unwrap_or(-1), String::from_utf8_lossy(&o.stdout).into_owned()),
        Err(e) => (-1, format!("{e}")),
    };
    let violation = match code {
        3 => Violation { sub: sub.to_string(), clause: "nontermination".into(), detail: format!("{detail}; replayed alone in a fresh process it again did not finish within the limit"), case },
        1 => {
            // finished in isolation, but with a violation of its own
            let clause = text.split("clause=").nth(1).and_then(|t| t.split(" :: ").next()).unwrap_or("nontermination").trim().to_string();
            let d = text.split(" :: ").nth(1).unwrap_or("").trim().to_string();
            Violation { sub: sub.to_string(), clause, detail: format!("(found by replaying a case that exceeded the per-case limit) {d}"), case }
        }
        _ => {
            eprintln!("INCONCLUSIVE: a case of {prop_id}/{sub} exceeded the per-case limit ({secs:.0} s) but finished when replayed alone (exit {code}); no verdict");
            std::process::exit(2);
        }
    };
    let mut report = Report::default();
    let mut sr = kit::report::SubReport { name: sub.to_string(), rule: "(run interrupted by a non-terminating case)".into(), evaluations: 1, ..Default::default() };
    sr.violations.push(violation);
    report.subs.push(sr);
    if let Some(p) = partial_out {
        std::fs::write(p, serde_json::to_vec(&report).unwrap()).expect("write partial report");
        std::process::exit(0);
    }
    finish(&ctx, &def, report, secs);
}

pub fn finish(ctx: &Ctx, def: &props::PropDef, report: Report, wall: f64) -> ! {
    let root = verif_root();
    // known findings: one line each
    let hits = report.known_hits();
    for f in &ctx.known {
        println!(
            "KNOWN-FINDING: property={} {} [signature={}; hits this run={}]",
            ctx.prop,
            f.what_fails,
            f.signature,
            hits.get(&f.signature).copied().unwrap_or(0)
        );
    }
    let violations: Vec<Violation> = report.violations().into_iter().cloned().collect();
    let _ = std::fs::create_dir_all(format!("{root}/replays"));
    for v in &violations {
        let body = serde_json::json!({
            "property": ctx.prop,
            "sub": v.sub,
            "clause": v.clause,
            "detail": v.detail,
            "seed": ctx.seed,
            "tier": ctx.tier.as_str(),
            "case": v.case,
        });
        let bytes = serde_json::to_vec_pretty(&body).unwrap();
        let path = format!("{root}/replays/{}-{:016x}.json", ctx.prop, kit::fnv64(&bytes));
        let _ = std::fs::write(&path, &bytes);
        let mut d = v.detail.replace('\n', " ");
        if d.len() > 600 {
            d.truncate(600);
        }
        println!("VIOLATION property={} replay={} sub={} clause={} :: {}", ctx.prop, path, v.sub, v.clause, d);
    }
    let ev = report.evidence(ctx.prop, ctx.tier, ctx.seed, wall, &def.assumptions);
    let _ = std::fs::create_dir_all(format!("{root}/evidence"));
    let evp = format!("{root}/evidence/{}.json", ctx.prop);
    std::fs::write(&evp, serde_json::to_vec_pretty(&ev).unwrap()).expect("write evidence");
    let inc = report.inconclusive();
    for m in &inc {
        eprintln!("INCONCLUSIVE: {m}");
    }
    if !violations.is_empty() {
        std::process::exit(1);
    }
    if !inc.is_empty() {
        std::process::exit(2);
    }
    println!("OK property={} tier={} seed={} evidence={}", ctx.prop, ctx.tier.as_str(), ctx.seed, evp);
    std::process::exit(0);
}

fn do_replay(ctx: &Ctx, def: &props::PropDef, path: &str) -> ! {
    let s = std::fs::read_to_string(path).unwrap_or_else(|e| {
        eprintln!("cannot read {path}: {e}");
        std::process::exit(2);
    });
    let v: serde_json::Value = serde_json::from_str(&s).unwrap_or_else(|e| {
        eprintln!("cannot parse {path}: {e}");
        std::process::exit(2);
    });
    let mut subname = v["sub"].as_str().unwrap_or("");
    if let Some(base) = subname.strip_suffix("[dbg]") {
        if ctx.profile != "dbg" {
            // the case failed in the debug-assertions build: replay it there
            let bin = props::c14::worker_bin("dbg");
            let st = std::process::Command::new(&bin).args(std::env::args().skip(1)).status();
            std::process::exit(st.ok().and_then(|s| s.code()).unwrap_or(2));
        }
        subname = base;
    }
    let sub = def.subs.iter().find(|s| s.name() == subname).unwrap_or_else(|| {
        eprintln!("replay file names unknown sub-check {subname}");
        std::process::exit(2);
    });
    {
        // a replay that does not finish: reproduces a recorded `nontermination`, otherwise no verdict
        let limit = case_limit(ctx.tier);
        let child = std::env::var("VERIF_REPLAY_CHILD").is_ok();
        let recorded_hang = v["clause"].as_str() == Some("nontermination");
        let (prop, path, subname) = (ctx.prop.to_string(), path.to_string(), subname.to_string());
        std::thread::spawn(move || {
            std::thread::sleep(limit);
            if child {
                std::process::exit(3);
            }
            if recorded_hang {
                println!("VIOLATION property={prop} replay={path} sub={subname} clause=nontermination :: the case again did not finish within {} s", limit.as_secs());
                std::process::exit(1);
            }
            eprintln!("INCONCLUSIVE: replay still running after {} s; no verdict", limit.as_secs());
            std::process::exit(2);
        });
    }
    match sub.replay(ctx, &v["case"]) {
        Ok(()) => {
            println!("REPLAY-OK property={} sub={} (case passes on this tree)", ctx.prop, subname);
            std::process::exit(0);
        }
        Err(f) => {
            if ctx.is_known(&f.clause) {
                println!("KNOWN-FINDING: property={} clause={} :: {}", ctx.prop, f.clause, f.detail);
                std::process::exit(0);
            }
            println!("VIOLATION property={} replay={} sub={} clause={} :: {}", ctx.prop, path, subname, f.clause, f.detail);
            std::process::exit(1);
        }
    }
}
