//! Small statistics helpers for the population runner.

#[derive(Clone, Debug, Default)]
pub struct Moments {
    pub n: u64,
    pub sum: f64,
    pub sum2: f64,
}
impl Moments {
    pub fn push(&mut self, x: f64) {
        self.n += 1;
        self.sum += x;
        self.sum2 += x * x;
    }
    pub fn mean(&self) -> f64 {
        if self.n == 0 { 0.0 } else { self.sum / self.n as f64 }
    }
    pub fn var(&self) -> f64 {
        if self.n < 2 {
            return 0.0;
        }
        let m = self.mean();
        ((self.sum2 / self.n as f64) - m * m).max(0.0) * (self.n as f64 / (self.n as f64 - 1.0))
    }
    pub fn sd(&self) -> f64 {
        self.var().sqrt()
    }
    pub fn merge(&mut self, o: &Moments) {
        self.n += o.n;
        self.sum += o.sum;
        self.sum2 += o.sum2;
    }
}

/// six-sigma binomial margin
pub fn binom_margin(p: f64, n: u64) -> f64 {
    6.0 * (p * (1.0 - p) / n.max(1) as f64).sqrt()
}
