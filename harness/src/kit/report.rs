//! Per-run report: counts, classes, samples, violations; written as /verif/evidence/<id>.json.

use serde::{Deserialize, Serialize};
use serde_json::{json, Value};
use std::collections::{BTreeMap, BTreeSet};

#[derive(Clone, Copy, Debug, PartialEq, Eq, Serialize, Deserialize)]
pub enum Tier {
    Quick,
    Thorough,
}
impl Tier {
    pub fn as_str(&self) -> &'static str {
        match self {
            Tier::Quick => "quick",
            Tier::Thorough => "thorough",
        }
    }
    /// Pick a budget by tier.
    pub fn pick<T>(&self, quick: T, thorough: T) -> T {
        match self {
            Tier::Quick => quick,
            Tier::Thorough => thorough,
        }
    }
}

#[derive(Clone, Debug, Serialize, Deserialize)]
pub struct Violation {
    pub sub: String,
    pub clause: String,
    pub detail: String,
    /// the (shrunk) failing case, serialized
    pub case: Value,
}

#[derive(Clone, Debug, Default, Serialize, Deserialize)]
pub struct SubReport {
    pub name: String,
    pub rule: String,
    pub evaluations: u64,
    pub nontrivial: BTreeSet<u64>,
    pub classes: BTreeMap<String, u64>,
    pub samples: Vec<Value>,
    pub known_hits: BTreeMap<String, u64>,
    pub violations: Vec<Violation>,
    pub extra: BTreeMap<String, Value>,
    pub inconclusive: Vec<String>,
    pub wall_s: f64,
}

#[derive(Clone, Debug, Default, Serialize, Deserialize)]
pub struct Report {
    pub subs: Vec<SubReport>,
}

impl Report {
    pub fn merge(&mut self, other: Report) {
        self.subs.extend(other.subs);
    }
    pub fn violations(&self) -> Vec<&Violation> {
        self.subs.iter().flat_map(|s| s.violations.iter()).collect()
    }
    pub fn known_hits(&self) -> BTreeMap<String, u64> {
        let mut m = BTreeMap::new();
        for s in &self.subs {
            for (k, v) in &s.known_hits {
                *m.entry(k.clone()).or_insert(0) += v;
            }
        }
        m
    }
    pub fn inconclusive(&self) -> Vec<String> {
        self.subs
            .iter()
            .flat_map(|s| s.inconclusive.iter().map(move |m| format!("{}: {}", s.name, m)))
            .collect()
    }

    pub fn evidence(
        &self,
        prop: &str,
        tier: Tier,
        seed: u64,
        wall_s: f64,
        assumptions: &[&str],
    ) -> Value {
        let evaluations: u64 = self.subs.iter().map(|s| s.evaluations).sum();
        let distinct: u64 = self.subs.iter().map(|s| s.nontrivial.len() as u64).sum();
        let rule = self
            .subs
            .iter()
            .map(|s| format!("[{}] {}", s.name, s.rule))
            .collect::<Vec<_>>()
            .join(" || ");
        let mut samples = vec![];
        for s in &self.subs {
            for v in s.samples.iter().take(3) {
                samples.push(json!({"sub": s.name, "case": v}));
            }
        }
        let subs: Vec<Value> = self
            .subs
            .iter()
            .map(|s| {
                json!({
                    "name": s.name,
                    "evaluations": s.evaluations,
                    "distinct_nontrivial": s.nontrivial.len(),
                    "classes": s.classes,
                    "known_finding_hits": s.known_hits,
                    "violations": s.violations.len(),
                    "inconclusive": s.inconclusive,
                    "extra": s.extra,
                    "wall_s": (s.wall_s * 100.0).round() / 100.0,
                })
            })
            .collect();
        json!({
            "property_id": prop,
            "tier": tier.as_str(),
            "seed": seed,
            "level": "exploration",
            "coverage": {
                "evaluations": evaluations,
                "distinct_nontrivial": distinct,
                "rule": rule,
                "samples": samples,
                "sub_checks": subs,
                "excluded_known": self.known_hits(),
            },
            "assumptions": assumptions,
            "wall_s": (wall_s * 100.0).round() / 100.0,
            "violations": self.violations().len(),
        })
    }
}

/// Truncate long arrays / strings inside a JSON value so that samples stay readable.
pub fn truncate_value(v: &Value, max_items: usize) -> Value {
    match v {
        Value::Array(a) if !a.is_empty() && a.iter().all(|x| x.is_number()) => {
            // numeric arrays become one compact string
            let mut s = String::from("[");
            for (i, x) in a.iter().take(max_items * 2).enumerate() {
                if i > 0 {
                    s.push(',');
                }
                s.push_str(&x.to_string());
            }
            if a.len() > max_items * 2 {
                s.push_str(&format!(",... (+{} more)", a.len() - max_items * 2));
            }
            s.push(']');
            Value::String(s)
        }
        Value::Array(a) => {
            let mut out: Vec<Value> =
                a.iter().take(max_items).map(|x| truncate_value(x, max_items)).collect();
            if a.len() > max_items {
                out.push(Value::String(format!("... (+{} more)", a.len() - max_items)));
            }
            Value::Array(out)
        }
        Value::Object(o) => {
            Value::Object(o.iter().map(|(k, x)| (k.clone(), truncate_value(x, max_items))).collect())
        }
        Value::String(s) if s.len() > 400 => {
            Value::String(format!("{}... (+{} chars)", &s[..400], s.len() - 400))
        }
        _ => v.clone(),
    }
}
