//! Capping allocator for the byte-engine worker: a single allocation request above the cap is a
//! robustness violation ("allocating memory out of proportion to the input length"). The worker
//! reports it on stderr with a backtrace and exits with code 86; the parent attributes it to the
//! in-flight input. Outside worker mode the cap is usize::MAX and the allocator is a pass-through.

use std::alloc::{GlobalAlloc, Layout, System};
use std::cell::Cell;
use std::sync::atomic::{AtomicUsize, Ordering};

pub struct CapAlloc;

pub static CAP: AtomicUsize = AtomicUsize::new(usize::MAX);
/// libFuzzer targets: raise SIGABRT instead of exiting, so that the fuzzer saves the input as an artifact
pub static ABORT_ON_VIOLATION: std::sync::atomic::AtomicBool = std::sync::atomic::AtomicBool::new(false);

thread_local! {
    static BYPASS: Cell<bool> = const { Cell::new(false) };
    /// what the worker is currently running (reported with an allocation violation)
    pub static CURRENT_ENTRY: Cell<&'static str> = const { Cell::new("?") };
}

#[cold]
fn violation(size: usize) -> ! {
    BYPASS.with(|b| b.set(true));
    let bt = std::backtrace::Backtrace::force_capture();
    let entry = CURRENT_ENTRY.with(|e| e.get());
    let msg = format!("ALLOC-VIOLATION size={size} cap={} entry={entry}\n{bt}\nEND-ALLOC-VIOLATION\n", CAP.load(Ordering::Relaxed));
    unsafe {
        libc::write(2, msg.as_ptr() as *const libc::c_void, msg.len());
        if ABORT_ON_VIOLATION.load(Ordering::Relaxed) {
            libc::abort();
        }
        libc::_exit(86);
    }
}

unsafe impl GlobalAlloc for CapAlloc {
    unsafe fn alloc(&self, layout: Layout) -> *mut u8 {
        if layout.size() > CAP.load(Ordering::Relaxed) && !BYPASS.with(|b| b.get()) {
            violation(layout.size());
        }
        System.alloc(layout)
    }
    unsafe fn alloc_zeroed(&self, layout: Layout) -> *mut u8 {
        if layout.size() > CAP.load(Ordering::Relaxed) && !BYPASS.with(|b| b.get()) {
            violation(layout.size());
        }
        System.alloc_zeroed(layout)
    }
    unsafe fn dealloc(&self, ptr: *mut u8, layout: Layout) {
        System.dealloc(ptr, layout)
    }
    unsafe fn realloc(&self, ptr: *mut u8, layout: Layout, new_size: usize) -> *mut u8 {
        if new_size > CAP.load(Ordering::Relaxed) && !BYPASS.with(|b| b.get()) {
            violation(new_size);
        }
        System.realloc(ptr, layout, new_size)
    }
}

pub fn set_cap(bytes: usize) {
    CAP.store(bytes, Ordering::Relaxed);
}
