//! Known findings: /verif/known_findings.json, read-only at run time.

use serde::{Deserialize, Serialize};

#[derive(Clone, Debug, Serialize, Deserialize)]
pub struct Finding {
    pub property: String,
    /// "known" (recorded, tolerated, printed as KNOWN-FINDING) or "fixed" (suppresses nothing)
    pub status: String,
    /// exact clause / signature string the check produces for this defect
    pub signature: String,
    pub what_fails: String,
    #[serde(default)]
    pub example: serde_json::Value,
    #[serde(default)]
    pub commit: Option<String>,
}

pub fn load() -> Vec<Finding> {
    let path = format!("{}/known_findings.json", crate::verif_root());
    match std::fs::read_to_string(&path) {
        Ok(s) => match serde_json::from_str::<Vec<Finding>>(&s) {
            Ok(v) => v,
            Err(e) => {
                eprintln!("cannot parse {path}: {e}");
                std::process::exit(2);
            }
        },
        Err(_) => vec![],
    }
}

/// Known (status == "known") findings for one property.
pub fn known_for(prop: &str) -> Vec<Finding> {
    load().into_iter().filter(|f| f.property == prop && f.status == "known").collect()
}
