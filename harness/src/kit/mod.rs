//! Shared machinery: runner (proptest driven from a binary), evidence, known findings,
//! reference hashes, statistics helpers.

pub mod alloc;
pub mod draw;
pub mod findings;
pub mod refhash;
pub mod report;
pub mod runner;
pub mod stats;

pub use report::{Report, Tier};
pub use runner::{CaseInfo, Ctx, Fail, PropSub, Sub};

/// FNV-1a 64 over bytes: deterministic, no per-process keys.
pub fn fnv64(bytes: &[u8]) -> u64 {
    let mut h: u64 = 0xcbf29ce484222325;
    for &b in bytes {
        h ^= b as u64;
        h = h.wrapping_mul(0x100000001b3);
    }
    h
}

/// SplitMix64 step: a pure function used to expand a *generated* seed into a stream.
#[derive(Clone, Debug)]
pub struct SplitMix(pub u64);
impl SplitMix {
    #[inline]
    pub fn next(&mut self) -> u64 {
        self.0 = self.0.wrapping_add(0x9E3779B97F4A7C15);
        let mut z = self.0;
        z = (z ^ (z >> 30)).wrapping_mul(0xBF58476D1CE4E5B9);
        z = (z ^ (z >> 27)).wrapping_mul(0x94D049BB133111EB);
        z ^ (z >> 31)
    }
    /// Uniform in [0,1).
    #[inline]
    pub fn unit(&mut self) -> f64 {
        (self.next() >> 11) as f64 / (1u64 << 53) as f64
    }
    /// Uniform in 0..n (n > 0), multiply-shift.
    #[inline]
    pub fn below(&mut self, n: u64) -> u64 {
        ((self.next() as u128 * n as u128) >> 64) as u64
    }
}

/// Monotone index mapping (shrinks well): maps a u16 onto 0..len.
#[inline]
pub fn pick_idx(i: u16, len: usize) -> usize {
    if len == 0 {
        0
    } else {
        ((i as usize) * len) >> 16
    }
}

#[macro_export]
macro_rules! fail {
    ($clause:expr, $($arg:tt)*) => {
        return Err($crate::kit::Fail { clause: $clause.to_string(), detail: format!($($arg)*) })
    };
}

#[macro_export]
macro_rules! ensure {
    ($cond:expr, $clause:expr, $($arg:tt)*) => {
        if !($cond) {
            return Err($crate::kit::Fail { clause: $clause.to_string(), detail: format!($($arg)*) });
        }
    };
}
