//! Reference one-shot MurmurHash3-x64-128 and XXH64, written from the public reference
//! algorithms (Appleby's MurmurHash3.cpp, Collet's xxhash spec). They share no code with the crate.

use std::hash::Hasher;

#[inline]
fn rd64(b: &[u8]) -> u64 {
    let mut a = [0u8; 8];
    a.copy_from_slice(&b[..8]);
    u64::from_le_bytes(a)
}
#[inline]
fn rd32(b: &[u8]) -> u32 {
    let mut a = [0u8; 4];
    a.copy_from_slice(&b[..4]);
    u32::from_le_bytes(a)
}

fn fmix64(mut k: u64) -> u64 {
    k ^= k >> 33;
    k = k.wrapping_mul(0xff51afd7ed558ccd);
    k ^= k >> 33;
    k = k.wrapping_mul(0xc4ceb9fe1a85ec53);
    k ^= k >> 33;
    k
}

/// MurmurHash3_x64_128 with a 64-bit seed placed in both lanes (the DataSketches convention).
pub fn murmur3_x64_128(data: &[u8], seed: u64) -> (u64, u64) {
    const C1: u64 = 0x87c37b91114253d5;
    const C2: u64 = 0x4cf5ad432745937f;
    let len = data.len();
    let nblocks = len / 16;
    let mut h1 = seed;
    let mut h2 = seed;
    for i in 0..nblocks {
        let mut k1 = rd64(&data[i * 16..]);
        let mut k2 = rd64(&data[i * 16 + 8..]);
        k1 = k1.wrapping_mul(C1);
        k1 = k1.rotate_left(31);
        k1 = k1.wrapping_mul(C2);
        h1 ^= k1;
        h1 = h1.rotate_left(27);
        h1 = h1.wrapping_add(h2);
        h1 = h1.wrapping_mul(5).wrapping_add(0x52dce729);
        k2 = k2.wrapping_mul(C2);
        k2 = k2.rotate_left(33);
        k2 = k2.wrapping_mul(C1);
        h2 ^= k2;
        h2 = h2.rotate_left(31);
        h2 = h2.wrapping_add(h1);
        h2 = h2.wrapping_mul(5).wrapping_add(0x38495ab5);
    }
    let tail = &data[nblocks * 16..];
    let mut k1: u64 = 0;
    let mut k2: u64 = 0;
    let t = len & 15;
    // the reference switch statement with fall-through, written as descending ifs
    if t >= 15 { k2 ^= (tail[14] as u64) << 48; }
    if t >= 14 { k2 ^= (tail[13] as u64) << 40; }
    if t >= 13 { k2 ^= (tail[12] as u64) << 32; }
    if t >= 12 { k2 ^= (tail[11] as u64) << 24; }
    if t >= 11 { k2 ^= (tail[10] as u64) << 16; }
    if t >= 10 { k2 ^= (tail[9] as u64) << 8; }
    if t >= 9 {
        k2 ^= tail[8] as u64;
        k2 = k2.wrapping_mul(C2);
        k2 = k2.rotate_left(33);
        k2 = k2.wrapping_mul(C1);
        h2 ^= k2;
    }
    if t >= 8 { k1 ^= (tail[7] as u64) << 56; }
    if t >= 7 { k1 ^= (tail[6] as u64) << 48; }
    if t >= 6 { k1 ^= (tail[5] as u64) << 40; }
    if t >= 5 { k1 ^= (tail[4] as u64) << 32; }
    if t >= 4 { k1 ^= (tail[3] as u64) << 24; }
    if t >= 3 { k1 ^= (tail[2] as u64) << 16; }
    if t >= 2 { k1 ^= (tail[1] as u64) << 8; }
    if t >= 1 {
        k1 ^= tail[0] as u64;
        k1 = k1.wrapping_mul(C1);
        k1 = k1.rotate_left(31);
        k1 = k1.wrapping_mul(C2);
        h1 ^= k1;
    }
    h1 ^= len as u64;
    h2 ^= len as u64;
    h1 = h1.wrapping_add(h2);
    h2 = h2.wrapping_add(h1);
    h1 = fmix64(h1);
    h2 = fmix64(h2);
    h1 = h1.wrapping_add(h2);
    h2 = h2.wrapping_add(h1);
    (h1, h2)
}

/// XXH64 per the xxHash specification.
pub fn xxh64(data: &[u8], seed: u64) -> u64 {
    const P1: u64 = 0x9E3779B185EBCA87;
    const P2: u64 = 0xC2B2AE3D27D4EB4F;
    const P3: u64 = 0x165667B19E3779F9;
    const P4: u64 = 0x85EBCA77C2B2AE63;
    const P5: u64 = 0x27D4EB2F165667C5;
    fn round(acc: u64, lane: u64) -> u64 {
        acc.wrapping_add(lane.wrapping_mul(P2)).rotate_left(31).wrapping_mul(P1)
    }
    fn merge(acc: u64, v: u64) -> u64 {
        (acc ^ round(0, v)).wrapping_mul(P1).wrapping_add(P4)
    }
    let len = data.len();
    let mut p = 0usize;
    let mut acc;
    if len >= 32 {
        let mut a1 = seed.wrapping_add(P1).wrapping_add(P2);
        let mut a2 = seed.wrapping_add(P2);
        let mut a3 = seed;
        let mut a4 = seed.wrapping_sub(P1);
        while p + 32 <= len {
            a1 = round(a1, rd64(&data[p..]));
            a2 = round(a2, rd64(&data[p + 8..]));
            a3 = round(a3, rd64(&data[p + 16..]));
            a4 = round(a4, rd64(&data[p + 24..]));
            p += 32;
        }
        acc = a1
            .rotate_left(1)
            .wrapping_add(a2.rotate_left(7))
            .wrapping_add(a3.rotate_left(12))
            .wrapping_add(a4.rotate_left(18));
        acc = merge(acc, a1);
        acc = merge(acc, a2);
        acc = merge(acc, a3);
        acc = merge(acc, a4);
    } else {
        acc = seed.wrapping_add(P5);
    }
    acc = acc.wrapping_add(len as u64);
    while p + 8 <= len {
        let lane = rd64(&data[p..]);
        acc ^= round(0, lane);
        acc = acc.rotate_left(27).wrapping_mul(P1).wrapping_add(P4);
        p += 8;
    }
    if p + 4 <= len {
        let lane = rd32(&data[p..]) as u64;
        acc ^= lane.wrapping_mul(P1);
        acc = acc.rotate_left(23).wrapping_mul(P2).wrapping_add(P3);
        p += 4;
    }
    while p < len {
        acc ^= (data[p] as u64).wrapping_mul(P5);
        acc = acc.rotate_left(11).wrapping_mul(P1);
        p += 1;
    }
    acc ^= acc >> 33;
    acc = acc.wrapping_mul(P2);
    acc ^= acc >> 29;
    acc = acc.wrapping_mul(P3);
    acc ^= acc >> 32;
    acc
}

/// Captures the exact sequence of `write` chunks a `T: Hash` emits.
#[derive(Default, Clone, Debug)]
pub struct Recorder {
    pub chunks: Vec<Vec<u8>>,
}
impl Hasher for Recorder {
    fn finish(&self) -> u64 {
        0
    }
    fn write(&mut self, bytes: &[u8]) {
        self.chunks.push(bytes.to_vec());
    }
}
impl Recorder {
    pub fn bytes_of<T: std::hash::Hash>(v: &T) -> Vec<u8> {
        let mut r = Recorder::default();
        v.hash(&mut r);
        r.chunks.concat()
    }
}

/// An item whose `Hash` impl issues exactly one `write` per chunk.
#[derive(Clone, Debug)]
pub struct Chunked<'a> {
    pub bytes: &'a [u8],
    /// cut points, strictly inside 0..=len, non-decreasing
    pub cuts: &'a [usize],
}
impl std::hash::Hash for Chunked<'_> {
    fn hash<H: Hasher>(&self, state: &mut H) {
        let mut prev = 0usize;
        for &c in self.cuts {
            let c = c.min(self.bytes.len()).max(prev);
            state.write(&self.bytes[prev..c]);
            prev = c;
        }
        state.write(&self.bytes[prev..]);
    }
}

/// Reference derivations (DESIGN 2.3).
pub const DEFAULT_SEED: u64 = 9001;

pub fn seed_hash(seed: u64) -> u16 {
    (murmur3_x64_128(&seed.to_le_bytes(), 0).0 & 0xffff) as u16
}
pub fn hll_coupon(item_bytes: &[u8]) -> u32 {
    let (h1, h2) = murmur3_x64_128(item_bytes, DEFAULT_SEED);
    let value = h2.leading_zeros().min(62) + 1;
    (value << 26) | (h1 as u32 & 0x3ff_ffff)
}
pub fn theta_hash(item_bytes: &[u8], seed: u64) -> u64 {
    murmur3_x64_128(item_bytes, seed).0 >> 1
}
pub fn cpc_row_col(item_bytes: &[u8], seed: u64, lg_k: u8) -> u32 {
    let (h1, h2) = murmur3_x64_128(item_bytes, seed);
    let col = h2.leading_zeros().min(63);
    let row = (h1 & ((1u64 << lg_k) - 1)) as u32;
    let mut rc = (row << 6) | col;
    if rc == u32::MAX {
        rc ^= 1 << 6;
    }
    rc
}

// ---------------------------------------------------------------------------------------------
// MurmurHash3-x64-128 is a bijection on single 16-byte blocks (every step is invertible): the harness can
// choose the 128-bit digest and compute the 16-byte item that hashes to it. A `u128` item is fed to the hasher
// as exactly those 16 little-endian bytes, so arbitrary (h1, h2) - register value 63, column 63, h2 = 0,
// theta hash 0 or 2^63 - 1, colliding slots - are reachable through the PUBLIC update methods.

const fn inv_odd(a: u64) -> u64 {
    // Newton iteration for the inverse of an odd number modulo 2^64
    let mut x = a;
    let mut i = 0;
    while i < 6 {
        x = x.wrapping_mul(2u64.wrapping_sub(a.wrapping_mul(x)));
        i += 1;
    }
    x
}

fn unfmix64(mut k: u64) -> u64 {
    k ^= k >> 33;
    k = k.wrapping_mul(inv_odd(0xc4ceb9fe1a85ec53));
    k ^= k >> 33;
    k = k.wrapping_mul(inv_odd(0xff51afd7ed558ccd));
    k ^= k >> 33;
    k
}

/// The 16 bytes whose MurmurHash3-x64-128 under `seed` is exactly (h1, h2).
pub fn murmur3_preimage16(h1: u64, h2: u64, seed: u64) -> [u8; 16] {
    const C1: u64 = 0x87c37b91114253d5;
    const C2: u64 = 0x4cf5ad432745937f;
    // undo "h1 += h2; h2 += h1" (the last two steps)
    let b = h2.wrapping_sub(h1);
    let a = h1.wrapping_sub(b);
    let (a, b) = (unfmix64(a), unfmix64(b));
    // undo "h1 += h2; h2 += h1" before fmix
    let q = b.wrapping_sub(a);
    let p = a.wrapping_sub(q);
    let (h1e, h2e) = (p ^ 16, q ^ 16);
    // undo the block round for h1: h1e = (rotl(seed ^ k1m, 27) + seed) * 5 + 0x52dce729
    let x = h1e.wrapping_sub(0x52dce729).wrapping_mul(inv_odd(5));
    let k1m = x.wrapping_sub(seed).rotate_right(27) ^ seed;
    let k1 = k1m.wrapping_mul(inv_odd(C2)).rotate_right(31).wrapping_mul(inv_odd(C1));
    // and for h2: h2e = (rotl(seed ^ k2m, 31) + h1e) * 5 + 0x38495ab5
    let y = h2e.wrapping_sub(0x38495ab5).wrapping_mul(inv_odd(5));
    let k2m = y.wrapping_sub(h1e).rotate_right(31) ^ seed;
    let k2 = k2m.wrapping_mul(inv_odd(C1)).rotate_right(33).wrapping_mul(inv_odd(C2));
    let mut out = [0u8; 16];
    out[..8].copy_from_slice(&k1.to_le_bytes());
    out[8..].copy_from_slice(&k2.to_le_bytes());
    out
}

/// The `u128` item whose hashed byte stream is `murmur3_preimage16(h1, h2, seed)`.
pub fn u128_item_for(h1: u64, h2: u64, seed: u64) -> u128 {
    u128::from_le_bytes(murmur3_preimage16(h1, h2, seed))
}

/// Streaming form of the reference MurmurHash3-x64-128 (same block and finalisation steps, input in pieces): used
/// for inputs too long to hold in one slice.
pub struct Murmur3Stream {
    h1: u64,
    h2: u64,
    len: u64,
    buf: Vec<u8>,
}
impl Murmur3Stream {
    pub fn new(seed: u64) -> Self {
        Murmur3Stream { h1: seed, h2: seed, len: 0, buf: Vec::with_capacity(16) }
    }
    fn block(&mut self, b: &[u8]) {
        const C1: u64 = 0x87c37b91114253d5;
        const C2: u64 = 0x4cf5ad432745937f;
        let mut k1 = rd64(b);
        let mut k2 = rd64(&b[8..]);
        k1 = k1.wrapping_mul(C1).rotate_left(31).wrapping_mul(C2);
        self.h1 ^= k1;
        self.h1 = self.h1.rotate_left(27).wrapping_add(self.h2).wrapping_mul(5).wrapping_add(0x52dce729);
        k2 = k2.wrapping_mul(C2).rotate_left(33).wrapping_mul(C1);
        self.h2 ^= k2;
        self.h2 = self.h2.rotate_left(31).wrapping_add(self.h1).wrapping_mul(5).wrapping_add(0x38495ab5);
    }
    pub fn update(&mut self, mut data: &[u8]) {
        self.len += data.len() as u64;
        if !self.buf.is_empty() {
            let need = 16 - self.buf.len();
            let take = need.min(data.len());
            self.buf.extend_from_slice(&data[..take]);
            data = &data[take..];
            if self.buf.len() == 16 {
                let b = std::mem::take(&mut self.buf);
                self.block(&b);
            }
        }
        while data.len() >= 16 {
            let (b, rest) = data.split_at(16);
            self.block(b);
            data = rest;
        }
        self.buf.extend_from_slice(data);
    }
    pub fn finish(mut self) -> (u64, u64) {
        // tail + finalisation: the one-shot reference applied to the buffered tail with the running state
        const C1: u64 = 0x87c37b91114253d5;
        const C2: u64 = 0x4cf5ad432745937f;
        let tail = std::mem::take(&mut self.buf);
        let (mut k1, mut k2) = (0u64, 0u64);
        for (i, &b) in tail.iter().enumerate() {
            if i < 8 {
                k1 |= (b as u64) << (8 * i);
            } else {
                k2 |= (b as u64) << (8 * (i - 8));
            }
        }
        if tail.len() > 8 {
            self.h2 ^= k2.wrapping_mul(C2).rotate_left(33).wrapping_mul(C1);
        }
        if !tail.is_empty() {
            self.h1 ^= k1.wrapping_mul(C1).rotate_left(31).wrapping_mul(C2);
        }
        let (mut h1, mut h2) = (self.h1 ^ self.len, self.h2 ^ self.len);
        h1 = h1.wrapping_add(h2);
        h2 = h2.wrapping_add(h1);
        let fmix = |mut k: u64| {
            k ^= k >> 33;
            k = k.wrapping_mul(0xff51afd7ed558ccd);
            k ^= k >> 33;
            k = k.wrapping_mul(0xc4ceb9fe1a85ec53);
            k ^= k >> 33;
            k
        };
        h1 = fmix(h1);
        h2 = fmix(h2);
        h1 = h1.wrapping_add(h2);
        h2 = h2.wrapping_add(h1);
        (h1, h2)
    }
}

/// An item that feeds `chunk` `times` times and then `tail` to the hasher (inputs of several GiB without the memory).
pub struct Repeated<'a> {
    pub chunk: &'a [u8],
    pub times: u64,
    pub tail: &'a [u8],
}
impl std::hash::Hash for Repeated<'_> {
    fn hash<H: Hasher>(&self, state: &mut H) {
        for _ in 0..self.times {
            state.write(self.chunk);
        }
        state.write(self.tail);
    }
}

/// Self-test against published vectors; exits 2 (infrastructure) if the trusted base is broken.
pub fn self_test() {
    let fox = b"The quick brown fox jumps over the lazy dog";
    let ok = murmur3_x64_128(fox, 0) == (0xe34bbc7bbc071b6c, 0x7a433ca9c49a9347)
        && xxh64(b"", 0) == 0xef46db3751d8e999
        && xxh64(b"a", 0) == 0xd24ec4f1a98c6e5b
        && xxh64(b"abc", 0) == 0x44bc2cf5ad770999
        && xxh64(b"Nobody inspects the spammish repetition", 0) == 0xfbcea83c8a378bf1
        && [(0u64, 0u64, 0u64), (u64::MAX, 1, 9001), (0x0123456789abcdef, 0, 12345), (1 << 63, u64::MAX, u64::MAX)]
            .iter()
            .all(|&(a, b, sd)| murmur3_x64_128(&murmur3_preimage16(a, b, sd), sd) == (a, b) && Recorder::bytes_of(&u128_item_for(a, b, sd)) == murmur3_preimage16(a, b, sd).to_vec())
        && (0..60usize).all(|n| {
            let data: Vec<u8> = (0..n as u8).map(|i| i.wrapping_mul(37)).collect();
            let mut st = Murmur3Stream::new(n as u64);
            for c in data.chunks(7) {
                st.update(c);
            }
            st.finish() == murmur3_x64_128(&data, n as u64)
        });
    if !ok {
        eprintln!("reference hash self-test failed: trusted base broken");
        std::process::exit(2);
    }
}
