//! Drawing single values from proptest strategies outside `TestRunner::run`
//! (population runner, byte engine). All randomness still comes from proptest's seeded RNG.

use proptest::strategy::{Strategy, ValueTree};
use proptest::test_runner::TestRunner;

pub struct Draw {
    runner: TestRunner,
}

impl Draw {
    pub fn new(seed: u64, prop: &str, sub: &str, stream: usize) -> Self {
        Draw { runner: super::runner::make_runner(seed, prop, sub, stream, 1, 0) }
    }
    pub fn draw<S: Strategy>(&mut self, s: &S) -> S::Value {
        s.new_tree(&mut self.runner).expect("strategy rejected").current()
    }
    pub fn u64(&mut self) -> u64 {
        self.draw(&proptest::num::u64::ANY)
    }
    pub fn below(&mut self, n: u64) -> u64 {
        self.draw(&(0..n))
    }
    pub fn unit(&mut self) -> f64 {
        (self.u64() >> 11) as f64 / (1u64 << 53) as f64
    }
}
