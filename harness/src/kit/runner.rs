//! E1: proptest `TestRunner`s driven from the binary, one per worker thread.

use super::findings::Finding;
use super::report::{truncate_value, SubReport, Tier, Violation};
use proptest::strategy::Strategy;
use proptest::test_runner::{Config, RngAlgorithm, TestCaseError, TestError, TestRng, TestRunner};
use serde::de::DeserializeOwned;
use serde::Serialize;
use serde_json::Value;
use std::cell::RefCell;
use std::collections::{BTreeMap, BTreeSet};
use std::panic::{catch_unwind, AssertUnwindSafe};
use std::sync::atomic::{AtomicBool, Ordering};
use std::sync::Mutex;
use std::time::Instant;

#[derive(Clone, Debug)]
pub struct Fail {
    /// stable identifier of the violated clause (also the known-finding signature)
    pub clause: String,
    pub detail: String,
}

pub struct Ctx {
    pub prop: &'static str,
    pub tier: Tier,
    pub seed: u64,
    pub threads: usize,
    pub known: Vec<Finding>,
    /// scale factor for case counts (VERIF_SCALE, default 1.0)
    pub scale: f64,
    /// which build profile this process is ("release" or "dbg")
    pub profile: &'static str,
}

impl Ctx {
    pub fn cases(&self, quick: u64, thorough: u64) -> u64 {
        let n = self.tier.pick(quick, thorough) as f64 * self.scale;
        (n.ceil() as u64).max(1)
    }
    pub fn is_known(&self, clause: &str) -> bool {
        self.known.iter().any(|f| f.signature == clause)
    }
}

/// Per-case bookkeeping filled in by the check function.
#[derive(Default)]
pub struct CaseInfo {
    pub labels: Vec<String>,
    pub nontrivial: bool,
    /// optional explicit distinctness key; default = hash of the serialized case
    pub key: Option<u64>,
    /// optional numeric accumulators (summed per sub-check, reported under "extra")
    pub sums: Vec<(&'static str, f64)>,
}
impl CaseInfo {
    pub fn label(&mut self, l: impl Into<String>) {
        self.labels.push(l.into());
    }
    pub fn sum(&mut self, k: &'static str, v: f64) {
        self.sums.push((k, v));
    }
}

thread_local! {
    static LAST_PANIC: RefCell<Option<String>> = const { RefCell::new(None) };
    static GUARD_DEPTH: std::cell::Cell<u32> = const { std::cell::Cell::new(0) };
}
static HOOK_SET: AtomicBool = AtomicBool::new(false);

/// Install a panic hook that records `file:line: message` in a thread-local instead of printing.
pub fn install_panic_hook() {
    if HOOK_SET.swap(true, Ordering::SeqCst) {
        return;
    }
    let verbose = std::env::var("VERIF_VERBOSE_PANICS").is_ok();
    let default = std::panic::take_hook();
    std::panic::set_hook(Box::new(move |info| {
        let loc = info
            .location()
            .map(|l| format!("{}:{}", l.file(), l.line()))
            .unwrap_or_else(|| "?".into());
        let msg = if let Some(s) = info.payload().downcast_ref::<&str>() {
            s.to_string()
        } else if let Some(s) = info.payload().downcast_ref::<String>() {
            s.clone()
        } else {
            "<non-string panic>".to_string()
        };
        LAST_PANIC.with(|p| *p.borrow_mut() = Some(format!("{loc}: {msg}")));
        // a panic outside `guard` is a bug of the harness itself: always show it
        if verbose || GUARD_DEPTH.with(|d| d.get()) == 0 {
            default(info);
        }
    }));
}

pub fn take_last_panic() -> Option<String> {
    LAST_PANIC.with(|p| p.borrow_mut().take())
}

/// Strip digits so that a panic signature does not depend on the concrete numbers.
pub fn strip_digits(s: &str) -> String {
    let mut out = String::with_capacity(s.len());
    let mut last_digit = false;
    for c in s.chars() {
        if c.is_ascii_digit() {
            if !last_digit {
                out.push('#');
            }
            last_digit = true;
        } else {
            out.push(c);
            last_digit = false;
        }
    }
    out
}

/// Run `f`, converting a panic into a `Fail` with clause `panic:<file>: <msg without digits>`.
pub fn guard<R>(f: impl FnOnce() -> Result<R, Fail>) -> Result<R, Fail> {
    GUARD_DEPTH.with(|d| d.set(d.get() + 1));
    let r = catch_unwind(AssertUnwindSafe(f));
    GUARD_DEPTH.with(|d| d.set(d.get() - 1));
    match r {
        Ok(r) => r,
        Err(_) => {
            let p = take_last_panic().unwrap_or_else(|| "?: <unknown panic>".into());
            // signature: file (without line) + message without digits
            let (loc, msg) = p.split_once(": ").unwrap_or(("?", p.as_str()));
            let file = loc.rsplit_once(':').map(|x| x.0).unwrap_or(loc);
            let file = file.rsplit("/src/").next().unwrap_or(file);
            Err(Fail {
                clause: format!("panic:{}: {}", file, strip_digits(msg)),
                detail: p,
            })
        }
    }
}

// ---------------------------------------------------------------------------------------------
// Non-termination: every case in flight is registered; a monitor thread (started by `main`) hands a case that
// has been running for longer than the per-case limit to `HangHandler`, which confirms it in an isolated process.

pub struct InflightEntry {
    pub sub: String,
    pub limit_factor: u32,
    pub since: Instant,
    pub case: Box<dyn Fn() -> Value + Send>,
}
static INFLIGHT: Mutex<BTreeMap<u64, InflightEntry>> = Mutex::new(BTreeMap::new());
static INFLIGHT_ID: std::sync::atomic::AtomicU64 = std::sync::atomic::AtomicU64::new(0);

pub struct Inflight(u64);
impl Inflight {
    pub fn enter(sub: &str, limit_factor: u32, case: Box<dyn Fn() -> Value + Send>) -> Inflight {
        let id = INFLIGHT_ID.fetch_add(1, Ordering::Relaxed);
        INFLIGHT.lock().unwrap().insert(id, InflightEntry { sub: sub.to_string(), limit_factor: limit_factor.max(1), since: Instant::now(), case });
        Inflight(id)
    }
}
impl Drop for Inflight {
    fn drop(&mut self) {
        INFLIGHT.lock().unwrap().remove(&self.0);
    }
}

/// The oldest case in flight that has exceeded its limit (`limit` x the sub-check's factor):
/// (sub, serialized case, seconds running, the limit that applied).
pub fn overdue_case(limit: std::time::Duration) -> Option<(String, Value, f64, std::time::Duration)> {
    let g = INFLIGHT.lock().unwrap();
    g.values()
        .filter(|e| e.since.elapsed() > limit * e.limit_factor)
        .max_by(|a, b| a.since.elapsed().cmp(&b.since.elapsed()))
        .map(|e| (e.sub.clone(), (e.case)(), e.since.elapsed().as_secs_f64(), limit * e.limit_factor))
}

/// A sub-check of a property (object safe so that a property is a list of them).
pub trait Sub: Sync {
    fn name(&self) -> &str;
    fn run(&self, ctx: &Ctx) -> SubReport;
    fn replay(&self, ctx: &Ctx, case: &Value) -> Result<(), Fail>;
}

/// Generic proptest-driven sub-check.
pub struct PropSub<T, S, MK, F>
where
    MK: Fn() -> S + Sync,
    S: Strategy<Value = T>,
    F: Fn(&T, &mut CaseInfo) -> Result<(), Fail> + Sync,
{
    pub name: &'static str,
    pub rule: &'static str,
    pub cases_quick: u64,
    pub cases_thorough: u64,
    pub max_shrink_iters: u32,
    /// multiplies the per-case non-termination limit (1 for ordinary sub-checks; > 1 where single cases are
    /// expensive by design)
    pub limit_factor: u32,
    pub strategy: MK,
    pub check: F,
}

fn seed_bytes(seed: u64, prop: &str, sub: &str, thread: usize) -> [u8; 32] {
    let mut sm = super::SplitMix(
        seed ^ super::fnv64(prop.as_bytes()).rotate_left(17)
            ^ super::fnv64(sub.as_bytes()).rotate_left(41)
            ^ (thread as u64).wrapping_mul(0xA24BAED4963EE407),
    );
    let mut out = [0u8; 32];
    for i in 0..4 {
        out[i * 8..i * 8 + 8].copy_from_slice(&sm.next().to_le_bytes());
    }
    out
}

pub fn make_runner(seed: u64, prop: &str, sub: &str, thread: usize, cases: u32, shrink: u32) -> TestRunner {
    let mut cfg = Config::default();
    cfg.cases = cases;
    cfg.failure_persistence = None;
    cfg.max_shrink_iters = shrink;
    cfg.max_shrink_time = 0;
    cfg.verbose = 0;
    cfg.max_global_rejects = 65536;
    cfg.source_file = None;
    let rng = TestRng::from_seed(RngAlgorithm::ChaCha, &seed_bytes(seed, prop, sub, thread));
    TestRunner::new_with_rng(cfg, rng)
}

struct ThreadAcc {
    evaluations: u64,
    nontrivial: BTreeSet<u64>,
    classes: BTreeMap<String, u64>,
    samples: Vec<Value>,
    known_hits: BTreeMap<String, u64>,
    sums: BTreeMap<String, f64>,
    failed: bool,
}

impl<T, S, MK, F> Sub for PropSub<T, S, MK, F>
where
    T: std::fmt::Debug + Clone + Serialize + DeserializeOwned + Send + 'static,
    MK: Fn() -> S + Sync,
    S: Strategy<Value = T>,
    F: Fn(&T, &mut CaseInfo) -> Result<(), Fail> + Sync,
{
    fn name(&self) -> &str {
        self.name
    }

    fn run(&self, ctx: &Ctx) -> SubReport {
        let t0 = Instant::now();
        let total = ctx.cases(self.cases_quick, self.cases_thorough);
        let threads = ctx.threads.max(1).min(total as usize);
        let violations: Mutex<Vec<Violation>> = Mutex::new(vec![]);
        let accs: Mutex<Vec<ThreadAcc>> = Mutex::new(vec![]);
        let stop = AtomicBool::new(false);

        std::thread::scope(|scope| {
            for th in 0..threads {
                let violations = &violations;
                let accs = &accs;
                let stop = &stop;
                scope.spawn(move || {
                    let my_cases = total / threads as u64 + if (th as u64) < total % threads as u64 { 1 } else { 0 };
                    let mut runner =
                        make_runner(ctx.seed, ctx.prop, self.name, th, my_cases as u32, self.max_shrink_iters);
                    let acc = RefCell::new(ThreadAcc {
                        evaluations: 0,
                        nontrivial: BTreeSet::new(),
                        classes: BTreeMap::new(),
                        samples: vec![],
                        known_hits: BTreeMap::new(),
                        sums: BTreeMap::new(),
                        failed: false,
                    });
                    let strategy = (self.strategy)();
                    let result = runner.run(&strategy, |case: T| {
                        if stop.load(Ordering::Relaxed) && !acc.borrow().failed {
                            // another thread found a violation: finish quickly
                            return Ok(());
                        }
                        let mut info = CaseInfo::default();
                        let inflight = {
                            let c = case.clone();
                            Inflight::enter(self.name, self.limit_factor, Box::new(move || serde_json::to_value(&c).unwrap_or(Value::Null)))
                        };
                        let r = guard(|| (self.check)(&case, &mut info));
                        drop(inflight);
                        let mut a = acc.borrow_mut();
                        let counting = !a.failed;
                        match r {
                            Ok(()) => {
                                if counting {
                                    record(&mut a, &case, info);
                                }
                                Ok(())
                            }
                            Err(f) => {
                                if ctx.is_known(&f.clause) {
                                    if counting {
                                        *a.known_hits.entry(f.clause.clone()).or_insert(0) += 1;
                                        record(&mut a, &case, info);
                                    }
                                    Ok(())
                                } else {
                                    if counting {
                                        a.evaluations += 1;
                                    }
                                    a.failed = true;
                                    stop.store(true, Ordering::Relaxed);
                                    Err(TestCaseError::fail(format!("{}\u{1}{}", f.clause, f.detail)))
                                }
                            }
                        }
                    });
                    if let Err(e) = result {
                        match e {
                            TestError::Fail(reason, value) => {
                                let msg = reason.message().to_string();
                                let (clause, detail) = match msg.split_once('\u{1}') {
                                    Some((c, d)) => (c.to_string(), d.to_string()),
                                    None => ("proptest".to_string(), msg),
                                };
                                violations.lock().unwrap().push(Violation {
                                    sub: self.name.to_string(),
                                    clause,
                                    detail,
                                    case: serde_json::to_value(&value).unwrap_or(Value::Null),
                                });
                            }
                            TestError::Abort(reason) => {
                                violations.lock().unwrap().push(Violation {
                                    sub: self.name.to_string(),
                                    clause: "harness.abort".into(),
                                    detail: format!("proptest aborted: {}", reason.message()),
                                    case: Value::Null,
                                });
                            }
                        }
                    }
                    accs.lock().unwrap().push(acc.into_inner());
                });
            }
        });

        let mut rep = SubReport { name: self.name.to_string(), rule: self.rule.to_string(), ..Default::default() };
        for a in accs.into_inner().unwrap() {
            rep.evaluations += a.evaluations;
            rep.nontrivial.extend(a.nontrivial);
            for (k, v) in a.classes {
                *rep.classes.entry(k).or_insert(0) += v;
            }
            for (k, v) in a.known_hits {
                *rep.known_hits.entry(k).or_insert(0) += v;
            }
            for (k, v) in a.sums {
                let e = rep.extra.entry(format!("sum_{k}")).or_insert(Value::from(0.0));
                *e = Value::from(e.as_f64().unwrap_or(0.0) + v);
            }
            if rep.samples.len() < 3 {
                rep.samples.extend(a.samples.into_iter().take(3 - rep.samples.len()));
            }
        }
        let mut v = violations.into_inner().unwrap();
        // harness.abort that is only "too many rejects" etc. is an infrastructure problem
        let mut inconclusive = vec![];
        v.retain(|x| {
            if x.clause == "harness.abort" {
                inconclusive.push(x.detail.clone());
                false
            } else {
                true
            }
        });
        // keep one violation per distinct clause
        let mut seen = BTreeSet::new();
        v.retain(|x| seen.insert(x.clause.clone()));
        rep.violations = v;
        rep.inconclusive = inconclusive;
        rep.wall_s = t0.elapsed().as_secs_f64();
        rep
    }

    fn replay(&self, _ctx: &Ctx, case: &Value) -> Result<(), Fail> {
        let case: T = serde_json::from_value(case.clone()).map_err(|e| Fail {
            clause: "harness.replay".into(),
            detail: format!("cannot decode case: {e}"),
        })?;
        let mut info = CaseInfo::default();
        guard(|| (self.check)(&case, &mut info))
    }
}

fn record<T: Serialize>(a: &mut ThreadAcc, case: &T, info: CaseInfo) {
    a.evaluations += 1;
    for l in info.labels {
        *a.classes.entry(l).or_insert(0) += 1;
    }
    for (k, v) in info.sums {
        *a.sums.entry(k.to_string()).or_insert(0.0) += v;
    }
    if info.nontrivial {
        let key = match info.key {
            Some(k) => k,
            None => super::fnv64(&serde_json::to_vec(case).unwrap_or_default()),
        };
        let fresh = a.nontrivial.insert(key);
        if fresh && a.samples.len() < 3 {
            if let Ok(v) = serde_json::to_value(case) {
                a.samples.push(truncate_value(&v, 24));
            }
        }
    }
}

/// A deterministic (non-proptest) sub-check implemented by a closure producing a SubReport;
/// used by the population runner and the byte engine.
pub struct FnSub<R, P>
where
    R: Fn(&Ctx) -> SubReport + Sync,
    P: Fn(&Ctx, &Value) -> Result<(), Fail> + Sync,
{
    pub name: &'static str,
    pub run: R,
    pub replay: P,
}
impl<R, P> Sub for FnSub<R, P>
where
    R: Fn(&Ctx) -> SubReport + Sync,
    P: Fn(&Ctx, &Value) -> Result<(), Fail> + Sync,
{
    fn name(&self) -> &str {
        self.name
    }
    fn run(&self, ctx: &Ctx) -> SubReport {
        let t0 = Instant::now();
        let mut r = (self.run)(ctx);
        r.name = self.name.to_string();
        r.wall_s = t0.elapsed().as_secs_f64();
        r
    }
    fn replay(&self, ctx: &Ctx, case: &Value) -> Result<(), Fail> {
        (self.replay)(ctx, case)
    }
}
