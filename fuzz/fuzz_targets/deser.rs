//! libFuzzer target for C14: every deserialize entry point plus post-operations on accepted values, with the
//! capping allocator; see `vcheck::props::c14::fuzz_one`.
#![no_main]
use libfuzzer_sys::fuzz_target;

#[global_allocator]
static GLOBAL: vcheck::kit::alloc::CapAlloc = vcheck::kit::alloc::CapAlloc;

fuzz_target!(|data: &[u8]| {
    vcheck::props::c14::fuzz_one(data);
});
