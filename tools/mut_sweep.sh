#!/bin/bash
# usage: tools/mut_sweep.sh   - a fixed list of hand-made mutants (literal first-occurrence replacements under
# /repo/datasketches/src), each applied, checked with the named properties' quick tier, and reverted.
# Never run while a `vp run` background job is using /repo.
run() { # file old new checks...
  local f="$1" old="$2" new="$3"; shift 3
  echo "### $f :: $(echo "$old" | head -1 | cut -c1-70)  ->  $(echo "$new" | head -1 | cut -c1-70)"
  tools/mutr.sh "datasketches/src/$f" "$old" "$new" "$@" 2>&1 | grep -v KNOWN-FINDING | cut -c1-260 | sed 's/^/    /'
}
cd /verif
run hll/estimator.rs $'        if new_value < 32 {\n            self.kxq0 += inv_pow2(new_value);' $'        if new_value <= 32 {\n            self.kxq0 += inv_pow2(new_value);' C12 C11
run cpc/union.rs 'old_flavor == Flavor::Empty && self.lg_k == sketch.lg_k()' 'old_flavor == Flavor::Empty && self.lg_k <= sketch.lg_k()' C06
run countmin/sketch.rs 'let mut sketch = Self::make(num_hashes, num_buckets, seed, entries);' 'let mut sketch = Self::make(num_hashes, num_buckets, 9001, entries);' C11 C12
run frequencies/sketch.rs 'bytes.write_u8(self.hash_map.lg_length());' 'bytes.write_u8(self.lg_max_map_size);' C12 C11
run codec/family.rs 'id: 18,' 'id: 19,' C12 C13
run hash/xxhash.rs 'self.total_len >= 32' 'self.total_len > 32' C16 C09
run hash/murmurhash.rs 'if rem > 8 {' 'if rem >= 8 {' C16
run cpc/sketch.rs '344,    // lg_k = 9' '300,    // lg_k = 9' C18
run theta/hash_table.rs 'let fraction = if self.lg_cur_size <= self.lg_nom_size {' 'let fraction = if self.lg_cur_size < self.lg_nom_size {' C18 C04
run theta/bit_pack.rs '((values[3] >> 4) & 0x7)) as u8;' '((values[3] >> 4) & 0x3)) as u8;' C11 C12
run bloom/sketch.rs 'self.num_bits_set = self.capacity() as u64 - self.num_bits_set;' 'self.num_bits_set = self.capacity() as u64 - self.num_bits_set - 1;' C09
run hll/hash_set.rs 'if RESIZE_DENOMINATOR as usize * coupon_count > RESIZE_NUMERATOR as usize * capacity {' 'if coupon_count > capacity {' C14 C13
