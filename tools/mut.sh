#!/bin/sh
# usage: tools/mut.sh <file under /repo> <sed expression> <Cxx> [...]   (sed-mutates, runs quick checks, reverts)
F="$1"; E="$2"; shift; shift
git -C /repo diff --quiet || { echo "/repo has uncommitted changes" >&2; exit 2; }
sed -i "$E" "/repo/$F"
if git -C /repo diff --quiet; then echo "MUTATION DID NOT CHANGE ANYTHING"; exit 2; fi
git -C /repo diff --stat | tail -1
for c in "$@"; do
  /verif/check "$c" ${TIER:-quick} 2>&1 | grep -E "VIOLATION|KNOWN-FINDING|^OK|BUILD-FAILED|INCONCLUSIVE|^error" | cut -c1-300
done
git -C /repo checkout -- .
