#!/usr/bin/env python3
"""Runs the repository's own suite (hooks OFF) and compares with the 218 stable passes of BASELINE.json."""
import json, re, subprocess, sys
base = json.load(open('/root/.vp/BASELINE.json'))
want = set(base['stable_pass'])
p = subprocess.run("cd /repo && cargo test --workspace --no-fail-fast --offline 2>&1", shell=True, capture_output=True, text=True)
cur = None
passed = set()
for line in p.stdout.splitlines():
    m = re.match(r'\s*Running (unittests )?(\S+)', line)
    if m:
        path = m.group(2)
        if m.group(1):
            cur = None  # unit tests: name already has module path
            crate = 'datasketches' if 'src/lib.rs' in path else path.split('/')[0]
            unit_crate = 'datasketches'
        else:
            cur = re.sub(r'\.rs$', '', path.split('/')[-1])
        continue
    m = re.match(r'test (\S+)( - should panic)? \.\.\. ok', line)
    if m:
        name = m.group(1)
        passed.add(f"datasketches::{cur}::{name}" if cur else f"datasketches::{name}")
missing = sorted(want - passed)
print(f"baseline stable passes: {len(want)}; passing now: {len(want & passed)}; missing: {len(missing)}")
for m in missing[:20]:
    print("  MISSING", m)
sys.exit(1 if missing else 0)
