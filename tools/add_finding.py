#!/usr/bin/env python3
"""usage: add_finding.py <property> <status known|fixed> <signature> <commit or -> <what fails> [example-json]"""
import json, sys
prop, status, sig, commit, what = sys.argv[1:6]
ex = json.loads(sys.argv[6]) if len(sys.argv) > 6 else None
p = '/verif/known_findings.json'
L = json.load(open(p))
e = {"property": prop, "status": status, "signature": sig, "what_fails": what, "example": ex,
     "commit": None if commit == '-' else commit}
if status == 'fixed':
    e["line"] = f"fixed: property={prop} {commit} {what}"
L = [x for x in L if not (x["property"] == prop and x["signature"] == sig and x.get("commit") == e["commit"])]
L.append(e)
json.dump(L, open(p, 'w'), indent=1)
print("findings:", len(L))
