#!/bin/sh
# usage: tools/try_patch.sh <patch.diff> <Cxx> [<Cxx> ...]   (applies to /repo, runs quick checks, reverts)
P="$1"; shift
git -C /repo diff --quiet || { echo "/repo has uncommitted changes" >&2; exit 2; }
git -C /repo apply "$P" || exit 2
for c in "$@"; do
  echo "=== $c against $(basename "$(dirname "$P")")/$(basename "$P")"
  /verif/check "$c" ${TIER:-quick} 2>&1 | grep -E "VIOLATION|KNOWN-FINDING|^OK|BUILD-FAILED|INCONCLUSIVE|error" | cut -c1-400
done
git -C /repo checkout -- . && git -C /repo clean -fdq
