#!/bin/sh
# usage: tools/mutr.sh <file under /repo> <old text> <new text> <Cxx> [...]  (literal first-occurrence replace, run, revert)
F="$1"; OLD="$2"; NEW="$3"; shift; shift; shift
git -C /repo diff --quiet || { echo "/repo has uncommitted changes" >&2; exit 2; }
python3 - "$F" "$OLD" "$NEW" <<'PY' || exit 2
import sys
f,old,new=sys.argv[1:4]
p='/repo/'+f
s=open(p).read()
if old not in s:
    print("OLD TEXT NOT FOUND"); sys.exit(2)
open(p,'w').write(s.replace(old,new,1))
PY
for c in "$@"; do
  /verif/check "$c" ${TIER:-quick} 2>&1 | grep -E "VIOLATION|KNOWN-FINDING|^OK|BUILD-FAILED|INCONCLUSIVE|^error" | cut -c1-300
done
git -C /repo checkout -- .
