#!/bin/sh
# usage: tools/run_all.sh [tier] [seed]   — runs every claimed check once, prints a one-line verdict each
TIER="${1:-quick}"; SEED="${2:-0}"
cd "$(dirname "$0")/.."
for c in C01 C02 C03 C04 C05 C06 C07 C08 C09 C10 C11 C12 C13 C14 C15 C16 C17 C18; do
  s=$(date +%s)
  out=$(VERIF_SEED=$SEED ./check $c $TIER 2>&1); rc=$?
  e=$(date +%s)
  echo "$c rc=$rc $((e-s))s $(echo "$out" | grep -c VIOLATION) violations $(echo "$out" | grep -E 'VIOLATION|INCONCLUSIVE' | head -2 | cut -c1-200)"
done
