#!/bin/bash
# usage: tools/refresh_corpus.sh [scale] [seed]
# Runs the thorough libFuzzer campaign of C14 (scaled), keeps the grown corpus, minimises it with libFuzzer's
# -merge=1 (smallest set of inputs preserving the covered features) and replaces /verif/corpus/c14 with the result.
# Run by hand; the checks never write to /verif/corpus.
set -e
SCALE="${1:-1}"; SEED="${2:-0}"
KEEP=$(mktemp -d /var/tmp/fzkeep.XXXXXX); MIN=$(mktemp -d /var/tmp/fzmin.XXXXXX)
cd /verif
VERIF_SCALE="$SCALE" VERIF_KEEP_FUZZ_CORPUS="$KEEP" ./check C14 thorough --seed "$SEED" --only libfuzzer | grep -v KNOWN-FINDING || true
fuzz/target/x86_64-unknown-linux-gnu/release/deser -merge=1 -max_len=4096 "$MIN" "$KEEP" 2>&1 | tail -1
rm -rf corpus/c14; mkdir -p corpus/c14
i=0; for f in "$MIN"/*; do cp "$f" "corpus/c14/$(basename "$f")"; i=$((i+1)); done
echo "$i files in /verif/corpus/c14 ($(du -sb corpus/c14 | cut -f1) bytes)"
rm -rf "$KEEP" "$MIN"
