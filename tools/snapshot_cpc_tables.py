#!/usr/bin/env python3
"""One-off: snapshots the CPC *encoding* tables and encoding column permutations of the pinned tree
(datasketches/src/cpc/compression_data.rs at commit 57a5ab6, where the crate's own `decoding_tables`
unit test ties them to the upstream Java/C++ tables) into /verif/spec/cpc_tables.json.
The spec decoder derives its decoding structures from these; it never reads /repo at run time."""
import json, re, subprocess
src = subprocess.run(["git", "-C", "/repo", "show", "57a5ab6:datasketches/src/cpc/compression_data.rs"], capture_output=True, text=True, check=True).stdout
def grab(name):
    i = src.index("static " + name)
    j = src.index("=", i)
    # find matching end: the first "];" at line start after j
    k = src.index("\n];", j)
    body = src[j + 1:k + 2]
    body = re.sub(r"//[^\n]*", "", body)
    nums = []
    depth = 0
    cur = None
    out = []
    stack = []
    tok = re.findall(r"\[|\]|0x[0-9a-fA-F]+|\d+", body)
    for t in tok:
        if t == "[":
            stack.append([])
        elif t == "]":
            done = stack.pop()
            if stack:
                stack[-1].append(done)
            else:
                out = done
        else:
            stack[-1].append(int(t, 0))
    return out
tables = {
    "length_limited_unary_encoding_table65": grab("LENGTH_LIMITED_UNARY_ENCODING_TABLE65"),
    "column_permutations_for_encoding": grab("COLUMN_PERMUTATIONS_FOR_ENCODING"),
    "encoding_tables_for_high_entropy_byte": grab("ENCODING_TABLES_FOR_HIGH_ENTROPY_BYTE"),
    "source": "apache/datasketches-rust 57a5ab6 datasketches/src/cpc/compression_data.rs",
}
assert len(tables["length_limited_unary_encoding_table65"]) == 65
assert len(tables["column_permutations_for_encoding"]) == 16 and all(len(p) == 56 for p in tables["column_permutations_for_encoding"])
assert len(tables["encoding_tables_for_high_entropy_byte"]) == 22 and all(len(p) == 256 for p in tables["encoding_tables_for_high_entropy_byte"])
json.dump(tables, open("/verif/spec/cpc_tables.json", "w"))
print("ok")
