#!/bin/bash
# usage: tools/eval_seeded.sh <seed-id> <dir with patch.diff demo.rs notes.md> <Cxx> [<Cxx> ...]
# 1. confirms the change independently in a scratch worktree (compiles, repo suite unchanged, demo fails with / passes without)
# 2. applies it to /repo, runs the given checks (quick), reverts
# 3. stores everything under /verif/seeded/<seed-id>/
ID="$1"; SRC="$2"; shift; shift
EV=/tmp/ev/$ID
OUT=/verif/seeded/$ID
mkdir -p /tmp/ev "$OUT"
git -C /repo diff --quiet || { echo "/repo dirty"; exit 2; }
if [ -n "${RECHECK_ONLY:-}" ] && [ -f "$OUT/meta.json" ]; then
  # the change was confirmed before: only re-run the checks against it and update checks_quick in meta.json
  cd /verif
  git -C /repo apply "$OUT/patch.diff" || exit 2
  RES=""
  for c in "$@"; do
    o=$(./check "$c" quick 2>&1); rc=$?
    v=$(echo "$o" | grep VIOLATION | head -1 | cut -c1-300 | sed 's/"/'"'"'/g')
    echo "check $c rc=$rc :: $v"
    RES="$RES$c|rc=$rc $v
"
  done
  git -C /repo checkout -- . && git -C /repo clean -fdq
  python3 - "$ID" "$RES" <<'PY'
import json,sys
id_,verd=sys.argv[1:3]
p=f'/verif/seeded/{id_}/meta.json'
m=json.load(open(p))
for line in verd.splitlines():
    if '|' in line:
        c,v=line.split('|',1); m.setdefault('checks_quick',{})[c]=v
json.dump(m,open(p,'w'),indent=1)
PY
  exit 0
fi
git -C /repo worktree remove --force "$EV" 2>/dev/null
git -C /repo worktree add -q "$EV" HEAD || exit 2
cp "$SRC/patch.diff" "$OUT/patch.diff"; cp "$SRC/demo.rs" "$OUT/demo.rs"; cp "$SRC/notes.md" "$OUT/notes.md" 2>/dev/null
cd "$EV"
res_apply=ok; git apply "$OUT/patch.diff" || res_apply=FAILED
res_build=$(cargo build -p datasketches --offline 2>&1 | grep -c "^error")
res_build_hooks=$(cargo build -p datasketches --features verif-hooks --offline 2>&1 | grep -c "^error")
cp "$OUT/demo.rs" datasketches/tests/seeded_demo.rs
demo_with=$(cargo test -p datasketches --offline --features verif-hooks --test seeded_demo 2>&1 | grep -E "^test result" | head -1)
rm datasketches/tests/seeded_demo.rs
suite_with=$(cargo test -p datasketches --offline --no-fail-fast 2>&1 | grep -E "^test [a-z_:0-9A-Z]+ .*\.\.\. ok|^test .* - should panic \.\.\. ok" | wc -l)
git apply -R "$OUT/patch.diff"
cp "$OUT/demo.rs" datasketches/tests/seeded_demo.rs
demo_without=$(cargo test -p datasketches --offline --features verif-hooks --test seeded_demo 2>&1 | grep -E "^test result" | head -1)
rm datasketches/tests/seeded_demo.rs
suite_without=$(cargo test -p datasketches --offline --no-fail-fast 2>&1 | grep -E "^test [a-z_:0-9A-Z]+ .*\.\.\. ok|^test .* - should panic \.\.\. ok" | wc -l)
cd /verif
git -C /repo worktree remove --force "$EV"
echo "apply=$res_apply build_errors=$res_build hooks_build_errors=$res_build_hooks"
echo "demo with change   : $demo_with"
echo "demo without change: $demo_without"
echo "suite passes with=$suite_with without=$suite_without"
# run checks against /repo with the change
git -C /repo apply "$OUT/patch.diff" || exit 2
baseline=$(python3 tools/repo_tests.py 2>&1 | grep -E "passing now" | tail -1)
echo "pinned suite in /repo with the change: $baseline"
declare -A verdict
for c in "$@"; do
  o=$(./check "$c" quick 2>&1); rc=$?
  v=$(echo "$o" | grep VIOLATION | head -2 | cut -c1-400)
  echo "check $c rc=$rc :: $v"
  verdict[$c]="rc=$rc $(echo "$v" | head -1 | sed 's/"/'"'"'/g' | cut -c1-300)"
done
git -C /repo checkout -- . && git -C /repo clean -fdq
python3 - "$ID" "$res_apply" "$res_build" "$demo_with" "$demo_without" "$suite_with" "$suite_without" "$(for c in "$@"; do echo "$c|${verdict[$c]}"; done)" "$baseline" <<'PY'
import json,sys,os
id_,apply_,build,dw,dwo,sw,swo,verd,baseline=sys.argv[1:10]
checks={}
for line in verd.splitlines():
    if '|' in line:
        c,v=line.split('|',1); checks[c]=v
p=f'/verif/seeded/{id_}/meta.json'
meta=json.load(open(p)) if os.path.exists(p) else {}
meta.update({"id":id_,"independent_confirmation":{"patch_applies":apply_,"build_errors":int(build),"demo_with_change":dw,"demo_without_change":dwo,"repo_suite_passes_with_change":int(sw),"repo_suite_passes_without_change":int(swo),"pinned_suite_in_repo_with_change":baseline,"commands":["git worktree add /tmp/ev/<id> HEAD; git apply patch.diff; cargo build -p datasketches --offline [--features verif-hooks]","cargo test -p datasketches --offline --test seeded_demo (with and without the change)","cargo test -p datasketches --offline --no-fail-fast (count of passing tests with and without)"]},"checks_quick":checks})
json.dump(meta,open(p,'w'),indent=1)
print("meta written")
PY
